// C11 — JIDs are canonical: parse/format round-trips and parts obey the
// address rules.
//
// Every law asserted here is one the property statement gives:
//
//	(canon)    an address returned without error re-parses from its string form
//	           to an Equal address (hence parsing is idempotent);
//	(parts)    each part is valid UTF-8, at most 1023 bytes, the domainpart is
//	           not empty, the localpart has none of "&'/:<>@ ;
//	(agree)    String, Localpart/Domainpart/Resourcepart, Bare, Domain, Copy and
//	           Equal agree with one another;
//	(build)    New(l,d,r), Parse(l@d/r) and j.WithX(p) agree;
//	(split)    SplitString / ParseUnsafe cut at the first '/' and then at the
//	           first '@';
//	(xml)      the attribute and element encodings round-trip through
//	           encoding/xml.
//
// Nothing is demanded of a call that returns an error except that the
// *agreeing* path fails too, and nothing is demanded of the zero JID or of
// Unsafe addresses beyond accessor agreement.
package c11

import (
	"bytes"
	"encoding/xml"
	"fmt"
	"io"
	"os"
	"strconv"
	"strings"
	"sync"
	"testing"
	"unicode/utf8"

	"pgregory.net/rapid"

	"mellium.im/xmpp/jid"
	"mellium.im/xmpp/verifharness/internal/ev"
)

func TestMain(m *testing.M) { ev.Main(m, "C11") }

// ---------------------------------------------------------------- reference

const forbiddenLocal = `"&'/:<>@`
const maxPart = 1023

// refSplit is RFC 7622 §3.2 step 1 and 2: cut at the first '/', then cut what
// is left at the first '@'.  clean is false when a separator is present with
// nothing on its outer side ("@d", "d/"): the string then names an empty
// localpart or resourcepart, which no triple of parts assembles to.
func refSplit(s string) (l, d, r string, clean bool) {
	clean = true
	if i := strings.IndexByte(s, '/'); i >= 0 {
		r, s = s[i+1:], s[:i]
		if r == "" {
			clean = false
		}
	}
	if i := strings.IndexByte(s, '@'); i >= 0 {
		l, d = s[:i], s[i+1:]
		if l == "" {
			clean = false
		}
	} else {
		d = s
	}
	return l, d, r, clean
}

// assemble is the string form of RFC 7622 §3.1: [ localpart "@" ] domainpart [ "/" resourcepart ].
func assemble(l, d, r string) string {
	s := d
	if l != "" {
		s = l + "@" + s
	}
	if r != "" {
		s = s + "/" + r
	}
	return s
}

// ---------------------------------------------------------------- plumbing

type fataler interface {
	Helper()
	Fatalf(string, ...any)
}

// cx carries the test handle and the rendering of the complete input.
type cx struct {
	t  fataler
	in string
}

func (c cx) fail(format string, args ...any) {
	c.t.Helper()
	ev.Failf(c.t, "%s\n%s", c.in, fmt.Sprintf(format, args...))
}

type parts struct{ l, d, r, s string }

func (p parts) String() string {
	return fmt.Sprintf("(local=%q domain=%q resource=%q String=%q)", p.l, p.d, p.r, p.s)
}

func (c cx) parts(what string, j jid.JID) (p parts) {
	if pn := ev.Guard(func() { p = parts{j.Localpart(), j.Domainpart(), j.Resourcepart(), j.String()} }); pn != "" {
		c.fail("accessors of %s: %s", what, pn)
	}
	return p
}

func (c cx) newJID(l, d, r string) (j jid.JID, err error) {
	if pn := ev.Guard(func() { j, err = jid.New(l, d, r) }); pn != "" {
		c.fail("jid.New(%q, %q, %q): %s", l, d, r, pn)
	}
	return
}

func (c cx) parse(s string) (j jid.JID, err error) {
	if pn := ev.Guard(func() { j, err = jid.Parse(s) }); pn != "" {
		c.fail("jid.Parse(%q): %s", s, pn)
	}
	return
}

func (c cx) equal(what string, a, b jid.JID) (eq bool) {
	if pn := ev.Guard(func() { eq = a.Equal(b) }); pn != "" {
		c.fail("%s: Equal: %s", what, pn)
	}
	return
}

// same demands that two results the statement says agree do agree: both
// calls fail, or both succeed with Equal addresses made of the same parts.
func (c cx) same(whatA string, a jid.JID, errA error, whatB string, b jid.JID, errB error) {
	if (errA == nil) != (errB == nil) {
		c.fail("%s returned error %v but %s returned error %v: the two must agree", whatA, errA, whatB, errB)
	}
	if errA != nil {
		return
	}
	pa, pb := c.parts(whatA, a), c.parts(whatB, b)
	if pa != pb {
		c.fail("%s = %v but %s = %v", whatA, pa, whatB, pb)
	}
	if !c.equal(whatA+" vs "+whatB, a, b) || !c.equal(whatB+" vs "+whatA, b, a) {
		c.fail("%s and %s have the same parts %v but Equal reports false", whatA, whatB, pa)
	}
}

// ---------------------------------------------------------------- the laws

type xmlDoc struct {
	XMLName xml.Name `xml:"x"`
	A       jid.JID  `xml:"a,attr"`
	E       jid.JID  `xml:"e"`
}

// checkJID asserts (canon), (parts), (agree) and (xml) for one address that a
// constructor returned without error.
func (c cx) checkJID(what string, j jid.JID) parts {
	p := c.parts(what, j)

	// (parts)
	for _, x := range []struct{ name, v string }{{"localpart", p.l}, {"domainpart", p.d}, {"resourcepart", p.r}} {
		if !utf8.ValidString(x.v) {
			c.fail("%s = %v: %s is not valid UTF-8", what, p, x.name)
		}
		if len(x.v) > maxPart {
			c.fail("%s: %s is %d bytes long (limit %d); %v", what, x.name, len(x.v), maxPart, p)
		}
	}
	if p.d == "" {
		c.fail("%s = %v returned without error has an empty domainpart", what, p)
	}
	if i := strings.IndexAny(p.l, forbiddenLocal); i >= 0 {
		c.fail("%s = %v: localpart contains forbidden character %q", what, p, p.l[i])
	}

	// (agree) String is the parts reassembled
	if want := assemble(p.l, p.d, p.r); p.s != want {
		c.fail("%s: String() = %q but the accessors give %v, i.e. %q", what, p.s, p, want)
	}
	// Equal is reflexive, Copy is Equal
	var cp jid.JID
	if pn := ev.Guard(func() { cp = j.Copy() }); pn != "" {
		c.fail("%s.Copy(): %s", what, pn)
	}
	if !c.equal(what, j, j) || !c.equal(what, j, cp) || !c.equal(what, cp, j) {
		c.fail("%s = %v is not Equal to itself or to its Copy", what, p)
	}
	if pc := c.parts(what+".Copy()", cp); pc != p {
		c.fail("%s.Copy() = %v, original %v", what, pc, p)
	}

	// (canon) the string form parses back to an Equal address
	j2, err := c.parse(p.s)
	if err != nil {
		c.fail("%s = %v was returned without error but Parse(String()) = Parse(%q) fails: %v", what, p, p.s, err)
	}
	if p2 := c.parts("Parse("+what+".String())", j2); p2 != p || !c.equal(what, j, j2) || !c.equal(what, j2, j) {
		c.fail("%s = %v is not canonical: Parse(%q) = %v (Equal=%v)", what, p, p.s, p2, c.equal(what, j, j2))
	}
	// (build) and so do its own parts
	j3, err := c.newJID(p.l, p.d, p.r)
	if err != nil {
		c.fail("%s = %v was returned without error but New of its own parts fails: %v", what, p, err)
	}
	if p3 := c.parts("New(parts of "+what+")", j3); p3 != p || !c.equal(what, j, j3) || !c.equal(what, j3, j) {
		c.fail("%s = %v is not canonical: New(%q, %q, %q) = %v (Equal=%v)", what, p, p.l, p.d, p.r, p3, c.equal(what, j, j3))
	}

	// (agree) Bare and Domain
	var bare, dom jid.JID
	if pn := ev.Guard(func() { bare, dom = j.Bare(), j.Domain() }); pn != "" {
		c.fail("%s.Bare()/Domain(): %s", what, pn)
	}
	pb, pd := c.parts(what+".Bare()", bare), c.parts(what+".Domain()", dom)
	if want := (parts{p.l, p.d, "", assemble(p.l, p.d, "")}); pb != want {
		c.fail("%s = %v: Bare() = %v, want %v", what, p, pb, want)
	}
	if want := (parts{"", p.d, "", p.d}); pd != want {
		c.fail("%s = %v: Domain() = %v, want %v", what, p, pd, want)
	}
	for _, e := range []struct {
		name string
		a, b jid.JID
		want bool
	}{
		{"Bare().Equal(j)", bare, j, p.r == ""},
		{"j.Equal(Bare())", j, bare, p.r == ""},
		{"Domain().Equal(j)", dom, j, p.r == "" && p.l == ""},
		{"j.Equal(Domain())", j, dom, p.r == "" && p.l == ""},
		{"Domain().Equal(Bare())", dom, bare, p.l == ""},
		{"Bare().Equal(Domain())", bare, dom, p.l == ""},
		{"Bare().Bare().Equal(Bare())", bare.Bare(), bare, true},
		{"Bare().Domain().Equal(Domain())", bare.Domain(), dom, true},
	} {
		if got := c.equal(what+": "+e.name, e.a, e.b); got != e.want {
			c.fail("%s = %v: %s = %v, but the parts say %v", what, p, e.name, got, e.want)
		}
	}
	// Bare and Domain are addresses the package returned: canonical as well.
	for _, x := range []struct {
		name string
		j    jid.JID
		p    parts
	}{{"Bare()", bare, pb}, {"Domain()", dom, pd}} {
		jx, err := c.parse(x.p.s)
		if err != nil {
			c.fail("%s.%s = %v but Parse(%q) fails: %v", what, x.name, x.p, x.p.s, err)
		}
		if px := c.parts("Parse("+x.name+")", jx); px != x.p || !c.equal(what, jx, x.j) || !c.equal(what, x.j, jx) {
			c.fail("%s.%s = %v is not canonical: Parse(%q) = %v", what, x.name, x.p, x.p.s, px)
		}
	}

	c.checkXML(what, j, p)

	// none of the above may have changed j
	if after := c.parts(what, j); after != p {
		c.fail("%s changed from %v to %v while only being read", what, p, after)
	}
	return p
}

// checkXML: marshal as attribute and as element with encoding/xml, read the
// document back with an independent token pass (the encoded value is the
// string form) and with Unmarshal (the decoded address is Equal).
func (c cx) checkXML(what string, j jid.JID, p parts) {
	var out []byte
	var err error
	if pn := ev.Guard(func() { out, err = xml.Marshal(xmlDoc{A: j, E: j}) }); pn != "" {
		c.fail("xml.Marshal of %s = %v: %s", what, p, pn)
	}
	if err != nil {
		c.fail("xml.Marshal of %s = %v: %v", what, p, err)
	}
	var attr, text string
	var sawAttr, inE bool
	d := xml.NewDecoder(bytes.NewReader(out))
	for {
		tok, err := d.Token()
		if err == io.EOF {
			break
		}
		if err != nil {
			c.fail("%s = %v marshals to %q which is not well-formed XML: %v", what, p, out, err)
		}
		switch tk := tok.(type) {
		case xml.StartElement:
			if tk.Name.Local == "x" {
				for _, a := range tk.Attr {
					if a.Name.Local == "a" {
						attr, sawAttr = a.Value, true
					}
				}
			}
			inE = tk.Name.Local == "e"
		case xml.EndElement:
			inE = false
		case xml.CharData:
			if inE {
				text += string(tk)
			}
		}
	}
	if !sawAttr || attr != p.s || text != p.s {
		c.fail("%s = %v marshals to %q: attribute value %q (present=%v), element text %q; both must be the string form", what, p, out, attr, sawAttr, text)
	}
	var back xmlDoc
	if pn := ev.Guard(func() { err = xml.Unmarshal(out, &back) }); pn != "" {
		c.fail("xml.Unmarshal(%q): %s", out, pn)
	}
	if err != nil {
		c.fail("%s = %v marshals to %q which does not unmarshal: %v", what, p, out, err)
	}
	if pa := c.parts("unmarshalled attribute", back.A); pa != p || !c.equal(what, back.A, j) || !c.equal(what, j, back.A) {
		c.fail("%s = %v: attribute round trip through %q gives %v", what, p, out, pa)
	}
	if pe := c.parts("unmarshalled element", back.E); pe != p || !c.equal(what, back.E, j) || !c.equal(what, j, back.E) {
		c.fail("%s = %v: element round trip through %q gives %v", what, p, out, pe)
	}
}

// checkSplit asserts (split) for one string and returns the reference parts.
func (c cx) checkSplit(s string) (l, d, r string, clean bool) {
	l, d, r, clean = refSplit(s)
	var gl, gd, gr string
	var err error
	if pn := ev.Guard(func() { gl, gd, gr, err = jid.SplitString(s) }); pn != "" {
		c.fail("jid.SplitString(%q): %s", s, pn)
	}
	if err == nil && (gl != l || gd != d || gr != r) {
		c.fail("SplitString(%q) = (%q, %q, %q); first '/' then first '@' gives (%q, %q, %q)", s, gl, gd, gr, l, d, r)
	}
	if err != nil && clean && len(l) <= maxPart && len(d) <= maxPart && len(r) <= maxPart {
		c.fail("SplitString(%q) fails with %v although the string splits into (%q, %q, %q)", s, err, l, d, r)
	}
	if err != nil && clean {
		ev.Class("split-error-on-long-part")
	}
	// ParseUnsafe: same cut, no checks at all; the parts come back verbatim.
	var u jid.Unsafe
	if pn := ev.Guard(func() { u, err = jid.ParseUnsafe(s) }); pn != "" {
		c.fail("jid.ParseUnsafe(%q): %s", s, pn)
	}
	if err != nil && clean {
		c.fail("ParseUnsafe(%q) fails with %v although the string splits into (%q, %q, %q)", s, err, l, d, r)
	}
	if err == nil {
		pu := c.parts("ParseUnsafe", u.JID)
		if pu.l != l || pu.d != d || pu.r != r {
			c.fail("ParseUnsafe(%q) = %v; first '/' then first '@' gives (%q, %q, %q)", s, pu, l, d, r)
		}
		if want := assemble(l, d, r); pu.s != want {
			c.fail("ParseUnsafe(%q): String() = %q but its accessors give %q", s, pu.s, want)
		}
	}
	return
}

// checkString: everything the statement says about one input string.
func (c cx) checkString(s string) (accepted bool, p parts, l, d, r string, clean bool) {
	l, d, r, clean = c.checkSplit(s)
	j, err := c.parse(s)
	if clean {
		// s is the assembled form of (l, d, r): building and parsing agree
		jn, errn := c.newJID(l, d, r)
		c.same(fmt.Sprintf("Parse(%q)", s), j, err, fmt.Sprintf("New(%q, %q, %q)", l, d, r), jn, errn)
	}
	if err != nil {
		return false, parts{}, l, d, r, clean
	}
	p = c.checkJID(fmt.Sprintf("Parse(%q)", s), j)
	return true, p, l, d, r, clean
}

// checkTriple: everything the statement says about New(l, d, r).
func (c cx) checkTriple(l, d, r string) (accepted bool, p parts) {
	// NewUnsafe keeps the parts verbatim and its accessors agree
	var u jid.Unsafe
	if pn := ev.Guard(func() { u = jid.NewUnsafe(l, d, r) }); pn != "" {
		c.fail("jid.NewUnsafe(%q, %q, %q): %s", l, d, r, pn)
	}
	if pu := c.parts("NewUnsafe", u.JID); pu.l != l || pu.d != d || pu.r != r || pu.s != assemble(l, d, r) {
		c.fail("NewUnsafe(%q, %q, %q) = %v: accessors or String() do not give the parts back", l, d, r, pu)
	}

	j, err := c.newJID(l, d, r)
	s := assemble(l, d, r)
	if sl, sd, sr, clean := refSplit(s); clean && sl == l && sd == d && sr == r {
		jp, errp := c.parse(s)
		c.same(fmt.Sprintf("New(%q, %q, %q)", l, d, r), j, err, fmt.Sprintf("Parse(%q)", s), jp, errp)
	} else {
		ev.Class("triple-not-recoverable-from-string")
	}
	if err != nil {
		return false, parts{}
	}
	p = c.checkJID(fmt.Sprintf("New(%q, %q, %q)", l, d, r), j)
	return true, p
}

// checkWith: replacing one part of an accepted address agrees with building
// the address from the three parts.
func (c cx) checkWith(base jid.JID, pb parts, which role, repl string) (accepted bool, p parts) {
	var got, want jid.JID
	var gerr, werr error
	var whatG, whatW string
	switch which {
	case roleLocal:
		whatG = fmt.Sprintf("%q.WithLocal(%q)", pb.s, repl)
		if pn := ev.Guard(func() { got, gerr = base.WithLocal(repl) }); pn != "" {
			c.fail("%s: %s", whatG, pn)
		}
		whatW = fmt.Sprintf("New(%q, %q, %q)", repl, pb.d, pb.r)
		want, werr = c.newJID(repl, pb.d, pb.r)
	case roleDomain:
		whatG = fmt.Sprintf("%q.WithDomain(%q)", pb.s, repl)
		if pn := ev.Guard(func() { got, gerr = base.WithDomain(repl) }); pn != "" {
			c.fail("%s: %s", whatG, pn)
		}
		whatW = fmt.Sprintf("New(%q, %q, %q)", pb.l, repl, pb.r)
		want, werr = c.newJID(pb.l, repl, pb.r)
	default:
		whatG = fmt.Sprintf("%q.WithResource(%q)", pb.s, repl)
		if pn := ev.Guard(func() { got, gerr = base.WithResource(repl) }); pn != "" {
			c.fail("%s: %s", whatG, pn)
		}
		whatW = fmt.Sprintf("New(%q, %q, %q)", pb.l, pb.d, repl)
		want, werr = c.newJID(pb.l, pb.d, repl)
	}
	c.same(whatG, got, gerr, whatW, want, werr)
	// WithX returns a copy: the receiver is untouched
	if after := c.parts("receiver", base); after != pb {
		c.fail("%s changed its receiver from %v to %v", whatG, pb, after)
	}
	if gerr != nil {
		return false, parts{}
	}
	return true, c.checkJID(whatG, got)
}

// checkPair: Equal is symmetric and is byte equality of the three parts.
func (c cx) checkPair(whatA string, a jid.JID, whatB string, b jid.JID) {
	pa, pb := c.parts(whatA, a), c.parts(whatB, b)
	want := pa.l == pb.l && pa.d == pb.d && pa.r == pb.r
	ab, ba := c.equal(whatA+" vs "+whatB, a, b), c.equal(whatB+" vs "+whatA, b, a)
	if ab != ba {
		c.fail("Equal is not symmetric: %s=%v .Equal(%s=%v) = %v, the converse = %v", whatA, pa, whatB, pb, ab, ba)
	}
	if ab != want {
		c.fail("%s=%v .Equal(%s=%v) = %v, but comparing the three parts gives %v", whatA, pa, whatB, pb, ab, want)
	}
	if ab && pa.s != pb.s {
		c.fail("%s=%v and %s=%v are Equal but print differently", whatA, pa, whatB, pb)
	}
}

// ---------------------------------------------------------------- measuring

func isASCII(s string) bool {
	for i := 0; i < len(s); i++ {
		if s[i] >= 0x80 {
			return false
		}
	}
	return true
}

func nearLimit(p parts) bool {
	return len(p.l) >= maxPart-2 || len(p.d) >= maxPart-2 || len(p.r) >= maxPart-2
}

// classify implements the non-trivial rule of DESIGN.md: an *accepted* input
// with a non-ASCII or mapped character, a separator inside a part, or a length
// within 2 of a limit.
func classify(accepted bool, inL, inD, inR string, out parts) (nontrivial bool, classes []string) {
	if !accepted {
		return false, []string{"rejected"}
	}
	classes = append(classes, "accepted")
	if !isASCII(inL) || !isASCII(inD) || !isASCII(inR) {
		nontrivial = true
		classes = append(classes, "non-ascii")
	}
	if inL != out.l || inD != out.d || inR != out.r {
		nontrivial = true
		classes = append(classes, "mapped")
	}
	if strings.ContainsAny(out.r, "/@") {
		nontrivial = true
		classes = append(classes, "separator-in-resource")
	}
	if nearLimit(out) {
		nontrivial = true
		classes = append(classes, "near-length-limit")
	}
	if strings.Contains(strings.ToLower(inD), "xn--") {
		classes = append(classes, "a-label")
	}
	if strings.HasPrefix(out.d, "[") || (out.d != "" && strings.Trim(out.d, "0123456789.") == "") {
		classes = append(classes, "ip-literal")
	}
	if strings.HasSuffix(inD, ".") || strings.HasSuffix(inD, "。") || strings.HasSuffix(inD, "．") || strings.HasSuffix(inD, "｡") {
		classes = append(classes, "trailing-dot")
	}
	return
}

// ---------------------------------------------------------------- properties

func TestC11Parse(t *testing.T) {
	ev.Check(t, 25000, 400000, func(rt *rapid.T) {
		s, class := genString(rt)
		c := cx{t: rt, in: fmt.Sprintf("input string: %q", s)}
		// run first (the rule speaks of accepted inputs), record, then judge:
		// every assertion above goes through ev.Failf, so recording happens in
		// a deferred call that runs before the failure unwinds further.
		recorded := false
		rec := func(acc bool, p parts, l, d, r string, clean bool) {
			recorded = true
			nt, classes := classify(acc, l, d, r, p)
			if !clean {
				classes = append(classes, "empty-part-with-separator")
			}
			if !utf8.ValidString(s) {
				classes = append(classes, "invalid-utf8")
			}
			ev.Case(nt, "parse|"+s, append(classes, class)...)
		}
		defer func() {
			if !recorded {
				l, d, r, clean := refSplit(s)
				rec(false, parts{}, l, d, r, clean)
			}
		}()
		acc, p, l, d, r, clean := c.checkString(s)
		rec(acc, p, l, d, r, clean)
	})
}

func TestC11New(t *testing.T) {
	ev.Check(t, 20000, 400000, func(rt *rapid.T) {
		nice := rapid.IntRange(0, 2).Draw(rt, "nice") > 0
		l := genPart(rt, roleLocal, nice)
		d := genPart(rt, roleDomain, nice)
		r := genPart(rt, roleResource, nice)
		c := cx{t: rt, in: fmt.Sprintf("input parts: local=%q domain=%q resource=%q", l, d, r)}
		recorded := false
		rec := func(acc bool, p parts) {
			recorded = true
			nt, classes := classify(acc, l, d, r, p)
			if !utf8.ValidString(l + d + r) {
				classes = append(classes, "invalid-utf8")
			}
			if strings.ContainsAny(l, "/@") || strings.ContainsAny(d, "/@") {
				classes = append(classes, "separator-in-local-or-domain")
			}
			ev.Case(nt, fmt.Sprintf("new|%q|%q|%q", l, d, r), append(classes, "triple")...)
		}
		defer func() {
			if !recorded {
				rec(false, parts{})
			}
		}()
		acc, p := c.checkTriple(l, d, r)
		rec(acc, p)
	})
}

var fallbackBases = []string{"a@example.com/r", "example.net", "user@example.net", "example.net/r/@", "é@bücher.example/É x", "a@[::1]/r", "a@127.0.0.1", "a@1.2.3.4/\u00a0"}

func genBase(rt *rapid.T, c cx) (jid.JID, string) {
	l := genPart(rt, roleLocal, true)
	d := genPart(rt, roleDomain, true)
	r := genPart(rt, roleResource, true)
	if rapid.IntRange(0, 3).Draw(rt, "noLocal") == 0 {
		l = ""
	}
	if rapid.IntRange(0, 3).Draw(rt, "noResource") == 0 {
		r = ""
	}
	fb := fallbackBases[rapid.IntRange(0, len(fallbackBases)-1).Draw(rt, "fallback")]
	if j, err := c.newJID(l, d, r); err == nil {
		return j, fmt.Sprintf("New(%q, %q, %q)", l, d, r)
	}
	ev.Class("base-fallback")
	j, err := c.parse(fb)
	if err != nil {
		c.fail("fallback base %q does not parse: %v", fb, err)
	}
	return j, fmt.Sprintf("Parse(%q)", fb)
}

func TestC11With(t *testing.T) {
	ev.Check(t, 15000, 300000, func(rt *rapid.T) {
		c := cx{t: rt}
		base, how := genBase(rt, c)
		which := role(rapid.IntRange(0, 2).Draw(rt, "which"))
		var repl string
		switch k := rapid.IntRange(0, 9).Draw(rt, "replKind"); {
		case k == 0:
			repl = ""
		case k <= 5:
			repl = genPart(rt, which, true)
		case k <= 8:
			repl = genPart(rt, which, false)
		default: // a part meant for another slot
			repl = genPart(rt, role((int(which)+1+rapid.IntRange(0, 1).Draw(rt, "otherSlot"))%3), false)
		}
		c.in = fmt.Sprintf("base address: %s; replace part %d (0 local, 1 domain, 2 resource) by %q", how, which, repl)
		pb := c.parts("base", base)
		recorded := false
		rec := func(acc bool, p parts) {
			recorded = true
			in := [3]string{pb.l, pb.d, pb.r}
			in[which] = repl
			nt, classes := classify(acc, in[0], in[1], in[2], p)
			classes = append(classes, []string{"with-local", "with-domain", "with-resource"}[which])
			if repl == "" {
				classes = append(classes, "with-empty")
			}
			ev.Case(nt, fmt.Sprintf("with|%s|%d|%q", pb.s, which, repl), classes...)
		}
		defer func() {
			if !recorded {
				rec(false, parts{})
			}
		}()
		c.checkJID("base "+how, base)
		acc, p := c.checkWith(base, pb, which, repl)
		rec(acc, p)
	})
}

// TestC11Equal: pairs of accepted addresses, many of them made of the *same
// bytes* cut at different places, or differing only by case/width.
func TestC11Equal(t *testing.T) {
	units := []string{"a", "b", "c", "x", "y", "0", "1", "é", "中", "ß", "я"}
	ev.Check(t, 10000, 200000, func(rt *rapid.T) {
		c := cx{t: rt}
		var a, b jid.JID
		var whatA, whatB, class string
		mk := func(l, d, r string) (jid.JID, string, bool) {
			j, err := c.newJID(l, d, r)
			return j, fmt.Sprintf("New(%q, %q, %q)", l, d, r), err == nil
		}
		switch k := rapid.IntRange(0, 9).Draw(rt, "pairKind"); {
		case k < 5: // same bytes, two cuts
			n := rapid.IntRange(1, 6).Draw(rt, "units")
			us := make([]string, n)
			for i := range us {
				us[i] = units[rapid.IntRange(0, len(units)-1).Draw(rt, "unit")]
			}
			cut := func(tag string) (string, string, string) {
				i := rapid.IntRange(0, n-1).Draw(rt, tag+"i")
				j := rapid.IntRange(i+1, n).Draw(rt, tag+"j")
				return strings.Join(us[:i], ""), strings.Join(us[i:j], ""), strings.Join(us[j:], "")
			}
			l1, d1, r1 := cut("a")
			l2, d2, r2 := cut("b")
			var ok1, ok2 bool
			a, whatA, ok1 = mk(l1, d1, r1)
			b, whatB, ok2 = mk(l2, d2, r2)
			class = "pair-same-bytes"
			if !ok1 || !ok2 {
				// not a statement of the property: the units were chosen to be
				// valid in every slot; make a dead generator visible instead
				ev.Case(false, "", "pair-plain-triple-rejected")
				return
			}
		case k < 8: // derived: case/width variant, Bare, Domain, one part replaced
			base, how := genBase(rt, c)
			pb := c.parts("base", base)
			a, whatA = base, how
			switch v := rapid.IntRange(0, 5).Draw(rt, "variant"); v {
			case 0:
				b, whatB = base.Bare(), how+".Bare()"
			case 1:
				b, whatB = base.Domain(), how+".Domain()"
			case 2, 3:
				var ok bool
				up := strings.ToUpper
				if v == 3 {
					up = func(s string) string { return s }
				}
				b, whatB, ok = mk(up(pb.l), up(pb.d), pb.r)
				if !ok {
					b, whatB = base.Copy(), how+".Copy()"
				}
			case 4:
				var err error
				b, err = base.WithResource(pb.r + "x")
				whatB = how + ".WithResource(+x)"
				if err != nil {
					b, whatB = base.Copy(), how+".Copy()"
				}
			default:
				var err error
				b, err = base.WithLocal("")
				whatB = how + `.WithLocal("")`
				if err != nil {
					b, whatB = base.Copy(), how+".Copy()"
				}
			}
			class = "pair-derived"
		default:
			a, whatA = genBase(rt, c)
			b, whatB = genBase(rt, c)
			class = "pair-independent"
		}
		c.in = fmt.Sprintf("pair: %s, %s", whatA, whatB)
		pa, pb := c.parts(whatA, a), c.parts(whatB, b)
		sameBytes := pa.l+pa.d+pa.r == pb.l+pb.d+pb.r
		classes := []string{class, "accepted"}
		if sameBytes {
			classes = append(classes, "pair-identical-data")
		}
		if sameBytes && pa != pb {
			classes = append(classes, "pair-identical-data-different-cut")
		}
		ev.Case(sameBytes || !isASCII(pa.s+pb.s), "equal|"+pa.s+"|"+pb.s+"|"+fmt.Sprint(len(pa.l), len(pa.d), len(pb.l), len(pb.d)), classes...)
		c.checkPair(whatA, a, whatB, b)
	})
}

// TestC11RuneSweep puts every Unicode scalar value (thorough tier: all of
// them, divided over the shards; quick tier: every 32nd, the residue chosen by
// VERIF_SEED) alone and between two letters into each of the three slots.
// This is where single code points that a profile maps onto something it
// would map again, or onto a separator, are found without luck.
func TestC11RuneSweep(t *testing.T) {
	ev.Begin(t)
	atoi := func(k string) int {
		n, _ := strconv.Atoi(os.Getenv(k))
		if n < 0 {
			n = -n
		}
		return n
	}
	step, off := 32, atoi("VERIF_SEED")%32
	if ev.Thorough() {
		step, off = 8, atoi("VERIF_SHARD")%8
	}
	for r := off; r <= utf8.MaxRune; r += step {
		if 0xD800 <= r && r <= 0xDFFF {
			continue
		}
		x := string(rune(r))
		triples := [][3]string{
			{x, "d", ""}, {"", x, ""}, {"", "d", x},
			{"a" + x + "a", "d", ""}, {"", "a" + x + "a", ""}, {"", "d", "a" + x + "a"},
		}
		if ev.Thorough() { // leading, trailing, and inside a right-to-left label
			for _, y := range []string{x + "a", "a" + x, "\u05d0" + x + "\u05d0"} {
				triples = append(triples, [3]string{y, "d", ""}, [3]string{"", y, ""}, [3]string{"", "d", y})
			}
		}
		for _, tr := range triples {
			c := cx{t: t, in: fmt.Sprintf("input parts: local=%q domain=%q resource=%q (sweep, U+%04X)", tr[0], tr[1], tr[2], r)}
			var p parts
			j, err := c.newJID(tr[0], tr[1], tr[2])
			if err == nil {
				p = c.parts("New", j)
			}
			nt, classes := classify(err == nil, tr[0], tr[1], tr[2], p)
			ev.Case(nt, fmt.Sprintf("sweep|%q", tr), append(classes, "rune-sweep")...)
			c.checkTriple(tr[0], tr[1], tr[2])
		}
	}
}

// ---------------------------------------------------------------- regressions

// TestC11Regress replays concrete inputs: the repository's own literals, the
// witnesses of every finding, and the corner cases around the zero value and
// the empty string.
func TestC11Regress(t *testing.T) {
	ev.Begin(t)
	long := func(s string, n int) string { return strings.Repeat(s, n) }
	inputs := append([]string{}, repoLiterals...)
	inputs = append(inputs,
		// limits
		long("a", 1023)+"@d/"+long("b", 1023), long("a", 1024)+"@d", "d/"+long("b", 1024), long("a", 1023), long("a", 1024),
		long("\u212a", 1023)+"@d", long("\u0130", 341)+"@d", long("\u0130", 342)+"@d", "d/"+long("\u00a0", 1024), long("\uff21", 1023), long("\uff21", 1024),
		long("abcdefg.", 127)+"abcdefg", long("abcdefg.", 128), long("abcdefg.", 128)+".",
		// mapping onto separators and forbidden characters
		"a\uff20b@d", "a\uff0fb@d", "d/\uff0f\uff20", "a\ufe6bb@d", "a@d\uff0fr", "a@d\uff20e",
		"[::1]/r", "a@[::1]", "a@[::FFFF]/R", "a@127.0.0.1/r", "a@1.2.3.4.", "[::ffff:1.2.3.4]",
	)
	for _, s := range inputs {
		c := cx{t: t, in: fmt.Sprintf("input string: %q", s)}
		acc, p, l, d, r, _ := c.checkString(s)
		nt, classes := classify(acc, l, d, r, p)
		ev.Case(nt, "regress|"+s, append(classes, "regress")...)
	}
	for _, tr := range [][3]string{
		{"a", "b.", "c"},
		{"a", "example.net", ""}, {"", "example.net", "r"}, {"b/d", "example.net", ""}, {"b@d", "example.net", ""}, {"e", "[example.net]", ""},
		{"a", "d/r", ""}, {"a", "d@e", ""}, {"", "", ""}, {"a", "", "r"}, {"", "d", "/"}, {"", "d", "@"}, {"a", "d", "r/"},
		{"\uff21", "\uff21", "\uff21"}, {"\u212a", "\u212a", "\u212a"},
	} {
		c := cx{t: t, in: fmt.Sprintf("input parts: local=%q domain=%q resource=%q", tr[0], tr[1], tr[2])}
		acc, p := c.checkTriple(tr[0], tr[1], tr[2])
		nt, classes := classify(acc, tr[0], tr[1], tr[2], p)
		ev.Case(nt, fmt.Sprintf("regress-new|%q", tr), append(classes, "regress")...)
	}
	// WithX on concrete addresses (sensitivity: WithLocal must apply the localpart checks)
	for _, w := range []struct {
		base  string
		which role
		repl  string
	}{
		{"a@example.net/r", roleLocal, "b@c"}, {"a@example.net/r", roleLocal, "b/c"}, {"a@example.net/r", roleLocal, "b\uff20c"},
		{"a@example.net/r", roleLocal, ""}, {"a@example.net/r", roleLocal, long("a", 1024)}, {"example.net", roleLocal, "É"},
		{"a@example.net/r", roleDomain, "b."}, {"a@example.net/r", roleDomain, ""},
		{"a@example.net/r", roleDomain, "c/d"}, {"a@example.net/r", roleDomain, "XN--BCHER-KVA.example."},
		{"a@example.net/r", roleResource, ""}, {"a@example.net", roleResource, "/@"}, {"a@example.net/r", roleResource, long("b", 1024)},
		{"a@example.net/r", roleResource, "\xff"}, {"a@example.net/r", roleLocal, "\xff"}, {"a@example.net/r", roleDomain, "\xff"},
	} {
		c := cx{t: t, in: fmt.Sprintf("base address: Parse(%q); replace part %d by %q", w.base, w.which, w.repl)}
		base, err := c.parse(w.base)
		if err != nil {
			c.fail("regression base does not parse: %v", err)
		}
		pb := c.parts("base", base)
		acc, p := c.checkWith(base, pb, w.which, w.repl)
		in := [3]string{pb.l, pb.d, pb.r}
		in[w.which] = w.repl
		nt, classes := classify(acc, in[0], in[1], in[2], p)
		ev.Case(nt, fmt.Sprintf("regress-with|%s|%d|%q", w.base, w.which, w.repl), append(classes, "regress")...)
	}
	// same bytes, different cut (sensitivity: Equal must compare the part lengths)
	{
		c := cx{t: t, in: "pairs made of the bytes a b c d cut differently"}
		var js []jid.JID
		var names []string
		for _, s := range []string{"abcd", "a@bcd", "ab@cd", "abc/d", "ab/cd", "a@bc/d", "a@b/cd", "ab@c/d", "abc@d"} {
			j, err := c.parse(s)
			if err != nil {
				c.fail("Parse(%q): %v", s, err)
			}
			js, names = append(js, j), append(names, fmt.Sprintf("Parse(%q)", s))
		}
		for i := range js {
			for k := range js {
				ev.Case(true, "regress-pair|"+names[i]+names[k], "regress", "pair-identical-data")
				c.checkPair(names[i], js[i], names[k], js[k])
			}
		}
	}
	// The zero value is not an address the package hands out as valid; callers
	// (stanza structs with an absent to/from) rely only on: it prints as the
	// empty string, its accessors are empty, it is Equal to itself and to
	// nothing valid, and an empty attribute decodes to it without error.
	{
		c := cx{t: t, in: "zero value jid.JID{}"}
		ev.Case(false, "regress-zero", "regress", "zero-value")
		var z jid.JID
		if p := c.parts("jid.JID{}", z); p != (parts{}) {
			c.fail("zero JID has parts %v", p)
		}
		if !c.equal("zero", z, jid.JID{}) || !c.equal("zero", z, z.Copy()) || !c.equal("zero", z.Bare(), z) || !c.equal("zero", z.Domain(), z) {
			c.fail("zero JID is not Equal to itself, its Copy, Bare or Domain")
		}
		v, err := c.parse("example.net")
		if err != nil {
			c.fail("Parse(example.net): %v", err)
		}
		if c.equal("zero", z, v) || c.equal("zero", v, z) {
			c.fail("zero JID is Equal to example.net")
		}
		if _, err := c.parse(""); err == nil {
			c.fail(`Parse("") succeeds: an address needs a domainpart`)
		}
		if _, err := c.newJID("", "", ""); err == nil {
			c.fail(`New("", "", "") succeeds: an address needs a domainpart`)
		}
		var doc struct {
			XMLName xml.Name `xml:"x"`
			A       jid.JID  `xml:"a,attr"`
		}
		doc.A = v
		if err := xml.Unmarshal([]byte(`<x a=""/>`), &doc); err != nil {
			c.fail(`unmarshalling a="" fails: %v`, err)
		}
		// (documented by the implementation: an empty attribute leaves the
		// field as it was; not asserted either way beyond "no error")
		out, err := xml.Marshal(struct {
			XMLName xml.Name `xml:"x"`
			A       jid.JID  `xml:"a,attr"`
		}{})
		if err != nil {
			c.fail("marshalling the zero JID as attribute: %v", err)
		}
		var back struct {
			XMLName xml.Name `xml:"x"`
			A       jid.JID  `xml:"a,attr"`
		}
		if err := xml.Unmarshal(out, &back); err != nil || !c.equal("zero", back.A, z) {
			c.fail("zero JID attribute round trip through %q: err=%v, got %v", out, err, c.parts("back", back.A))
		}
	}
}

// replayFinding runs the laws over the witnesses of one finding: as whole
// strings, as the domainpart of a triple, and as the replacement in WithDomain.
func replayFinding(t *testing.T, tag string, domains []string) {
	ev.Begin(t)
	for _, d := range domains {
		for _, s := range []string{d, "a@" + d, d + "/r", "a@" + d + "/r"} {
			c := cx{t: t, in: fmt.Sprintf("input string: %q", s)}
			ev.Case(true, tag+"|"+s, "regress", tag)
			c.checkString(s)
		}
		c := cx{t: t, in: fmt.Sprintf("input parts: local=%q domain=%q resource=%q", "a", d, "r")}
		ev.Case(true, tag+"|new|"+d, "regress", tag)
		c.checkTriple("a", d, "r")
		c.checkTriple("", d, "")

		c = cx{t: t, in: fmt.Sprintf("base address: Parse(%q); replace part 1 by %q", "a@example.net/r", d)}
		base, err := c.parse("a@example.net/r")
		if err != nil {
			c.fail("regression base does not parse: %v", err)
		}
		ev.Case(true, tag+"|with|"+d, "regress", tag)
		c.checkWith(base, c.parts("base", base), roleDomain, d)
	}
}

// Finding 01: label separators left at the end of the domainpart
// (patches/01-domain-trailing-label-separators.diff).
func TestC11Regress01TrailingSeparators(t *testing.T) {
	replayFinding(t, "finding-01", []string{
		"example.com..", "example.com...", "example.com\u3002", "example.com\uff0e", "example.com\uff61", "example.com.\u3002",
		"..", "\u3002", "\uff61", "b\u3002", "xn--bcher-kva..", "a.b..", "XN--BCHER-KVA.example\uff0e",
	})
}

// Finding 02: a code point that is not right-to-left but is mapped to one that
// is; the Bidi Rule was only checked when the address was parsed again
// (patches/02-domain-revalidate-mapped-form.diff).
func TestC11Regress02MappedBidi(t *testing.T) {
	replayFinding(t, "finding-02", []string{
		"a\u2135a", "a\u2135", "\u2136b.example", "a\u2137a.example", "a\u2138.\u05d0", "a.1\u2138", "\u2135", "\u2135\u05d0",
	})
}

// ---------------------------------------------------------------- native fuzzing

// FuzzC11 is the coverage-guided variant (thorough tier only).  The string is
// checked as a whole address; the two bytes cut it into a triple for New and
// pick the slot for WithX, so the same law functions sit inside the target.
func FuzzC11(f *testing.F) {
	for i, s := range repoLiterals {
		f.Add(s, uint8(i), uint8(i*7))
	}
	f.Add("example.com..", uint8(0), uint8(13))
	f.Add("Ångström@BÜCHER.example。/ r／", uint8(9), uint8(30))
	f.Add("l·l@xn--bcher-kva.XN--FA-HIA/א", uint8(3), uint8(25))
	var begin sync.Once
	f.Fuzz(func(t *testing.T, s string, x, y uint8) {
		begin.Do(func() { ev.Begin(t) }) // attribute records to the fuzz target, once per process
		if len(s) > 3000 {
			s = s[:3000]
		}
		c := cx{t: t, in: fmt.Sprintf("input string: %q (cut bytes %d, %d)", s, x, y)}
		_, _, l, d, r, _ := c.checkString(s)

		// a triple cut out of the same bytes, separators left inside the parts
		i, k := 0, 0
		if len(s) > 0 {
			i = int(x) % (len(s) + 1)
			k = i + int(y)%(len(s)-i+1)
		}
		c.in = fmt.Sprintf("input parts: local=%q domain=%q resource=%q", s[:i], s[i:k], s[k:])
		c.checkTriple(s[:i], s[i:k], s[k:])

		// replace one part of the parsed address by another piece of the input
		c.in = fmt.Sprintf("input string: %q; then replace part %d by %q", s, x%3, s[i:k])
		if base, err := c.parse(s); err == nil {
			pb := c.parts("base", base)
			c.checkWith(base, pb, role(x%3), s[i:k])
			if o, err := c.newJID(r, d, l); err == nil { // the parts swapped round
				c.checkPair("Parse(input)", base, "New(resource, domain, local)", o)
			}
			// a history over the same material: chains and siblings, every
			// value re-read after every step
			runScript(t, fmt.Sprintf("Parse(%q)", s), base, []opSpec{
				{kind: opBare, target: 0}, {kind: opWithResource, target: 1, arg: s[i:k]}, {kind: opWithResource, target: 1, arg: r},
				{kind: opDomain, target: 0}, {kind: opWithLocal, target: int(y), arg: s[:i]}, {kind: opWithResource, target: int(x), arg: l},
				{kind: opWithResource, target: int(x), arg: s[k:]}, {kind: opWithDomain, target: int(y), arg: d},
			})
		}
	})
}
