package c11

import (
	"strings"

	"pgregory.net/rapid"
)

// ---------------------------------------------------------------- alphabets

// Pieces that the three PRECIS/IDNA profiles mostly accept ("nice"), including
// case, width and normalisation variants that are *mapped* on the way in.
var (
	plainPieces = []string{"a", "b", "z", "m", "A", "Q", "Z", "0", "7", "ab", "Xy", "x1"}
	punctPieces = []string{"-", ".", "_", "~", "!", "$", "*", "+", "=", ",", ";", "(", ")", "%", "#", "?", "|", "^", "{", "}", "`", "[", "]", `\`}
	// letters with case/width/normalisation behaviour
	mappedPieces = []string{
		"\u00e9", "\u00c9", "e\u0301", "E\u0301", "\u00e5", "\u00c5", "A\u030a", "\u212b", // e-acute, a-ring family (U+212B ANGSTROM SIGN)
		"\u00df", "\u1e9e", "\u0130", "\u0131", "i\u0307", "\u03c3", "\u03c2", "\u03a3", "\u0391\u03a3", "\u212a", // sharp s, dotted/dotless i, sigma, KELVIN SIGN
		"\u00f1", "\u00d1", "\u00fc", "\u00dc", "\u00f6", "\u044f", "\u042f", "\u0436", "\u0416", "\u01c6", "\u01c5", "\u01c4",
		"\uff21", "\uff41", "\uff11", "\uff71", "\u30a2", "\uff76\uff9e", "\u30ac", // full/half width
		"\u4e2d", "\u65e5\u672c", "\u3042", "\ud55c", "\u1112\u1161\u11ab", // han, kana, hangul syllable and its conjoining jamo
		"\u0300", "\u0345", "a\u0323\u0307", "a\u0307\u0323", "\u0958", "\u0915\u093c", // combining marks, reordering, composition exclusions
		"\ufb00", "\u2163", "\u0149", "\u017f", "\u00b5", "\u00aa", "\u00b2", "\u2135", "\u2136", "\u2126", "\ufb1d", "\ufe8d", // compatibility characters (some change direction when mapped)
	}
	rtlPieces = []string{"\u05d0", "\u05d1", "\u05d0\u05d1", "\u0634", "\u0628", "\u0663", "\u06f3", "\u05d01", "1\u05d0", "a\u05d0"}
	// code points with PRECIS/IDNA contextual rules
	ctxPieces = []string{"\u00b7", "l\u00b7l", "L\u00b7L", "\u200c", "\u200d", "\u0915\u094d\u200d", "\u0915\u094d\u200c", "\u30fb", "\u30a2\u30fb", "\uff65", "\u0375", "\u0375\u03b1", "\u05f3", "\u05d0\u05f3", "\u00ad", "\u0660", "\u06f0"}
	// the localpart's forbidden set, and characters that map to or resemble it
	forbiddenPieces = []string{`"`, "&", "'", "/", ":", "<", ">", "@"}
	nearForbidden   = []string{"\uff02", "\uff06", "\uff07", "\uff0f", "\uff1a", "\uff1c", "\uff1e", "\uff20", "\ufe6b", "\ufe55", "\u2215", "\u2044", "\u02bc", "\ufe60"}
	spacePieces     = []string{" ", "\u00a0", "\u3000", "\u2003", "\u1680", "\u2028", "\u202f", "  "}
	dotPieces       = []string{".", "\u3002", "\uff0e", "\uff61", "..", "\u2024"}
	oddPieces       = []string{"\U0001f600", "\u265a", "\t", "\n", "\r", "\x00", "\x7f", "\u0085", "\ufffd", "\ufffe", "\uffff", "\U0010ffff", "\U0001fffe", "\ue000", "\u2060", "\ufeff", "\u0378", "\U000e0001", "\u115f", "\u180e"}
	badUTF8         = []string{"\xff", "\xc3", "\xc0\xaf", "\xed\xa0\x80", "\xf8\x88\x80\x80\x80", "\xe4\xb8", "\xfe\xfd"}

	domainLabels = []string{
		"a", "b", "example", "Example", "EXAMPLE", "net", "com", "localhost", "x1", "1", "123", "a-b", "a--b",
		"xn--bcher-kva", "XN--BCHER-KVA", "Xn--Mnchen-3ya", "xn--fa-hia", "xn--fiqs8s", "xn--4dbrk0ce", "xn--mgbh0fb", "xn--nxasmq6b", "xn--nxasmm1c",
		"xn--a", "xn--", "xn---", "xn--0", "xn--bcher-KVA", "xn--example", "xn--ls8h", "xn--1ch", "xn--a-ecp", "xn--zca", "xn--ss-", "xn--maana-pta",
		"b\u00fccher", "B\u00dcCHER", "bu\u0308cher", "fa\u00df", "FASS", "\u1e9e", "\uff45\uff58", "\uff25\uff38", "\u4e2d\u56fd", "\u65e5\u672c\u8a9e", "\u30c9\u30e1\u30a4\u30f3", "\uff84\uff9e\uff92\uff72\uff9d", "\ud55c\uad6d", "\u05d0", "\u05d0\u05d1", "\u05d9\u05e9\u05e8\u05d0\u05dc", "\u0645\u0635\u0631", "a1\u05d0",
		"\u03c3", "\u03c2", "\u03a3\u0391\u03a3", "\u03b2\u03cc\u03bb\u03bf\u03c2", "\u0392\u038c\u039b\u039f\u03a3", "\u0131", "\u0130", "\u212a", "\u212b",
		"-a", "a-", "ab--c", "a_b", "a b", "a\u00adb", "a\u200cb", "a\u200db", "\u0300a", "a\u0300", "l\u00b7l", "a\u00b7b", "\u30fb", "\u30a2\u30fb",
		"", "a!", "a:b", "a[b", "a]", "a%b", "a\\b", "a*", "\U0001f600", "\u265a", "\u00a0", "\ufb00", "\u2163", "\u00b2", "a\ufffd", "a\u2135a", "\u2135", "\u2137\u05d0", "1\u2138",
	}
	ipLiterals = []string{
		"127.0.0.1", "1.2.3.4", "0.0.0.0", "255.255.255.255", "256.1.1.1", "1.2.3", "1.2.3.4.5", "01.2.3.4", "\uff11.2.3.4", "1.2.3.4.", "1\u30022\u30023\u30024",
		"[::1]", "[::]", "[2001:db8::1]", "[2001:DB8::1]", "[::FFFF]", "[::ffff:1.2.3.4]", "[::ffff:0102:0304]", "[1:2:3:4:5:6:7:8]", "[fe80::1%eth0]",
		"[127.0.0.1]", "::1", "[::1", "::1]", "[]", "[", "]", "[:]", "[::1].", "[::1]]", "[[::1]", "[::1]x", "[::g]", "[example.net]",
		// zone identifiers (RFC 6874 / what newer address parsers accept): an
		// address whose domainpart carried a separator, or exceeded 1023 bytes,
		// could not be canonical
		"[fe80::1%eth0/1]", "[fe80::1%a@b]", "[fe80::1%25eth0]", "[fe80::1%]", "[fe80::1% ]", "[::1%/]", "[::1%@]", "[fe80::1%\u00e9]",
		"[fe80::1%" + strings.Repeat("a", 1100) + "]", "[::ffff:1.2.3.4%x]", "1.2.3.4%eth0", "::ffff:1.2.3.4", "[0:0:0:0:0:0:0:1]", "[::1]:5222", "[::1]/x",
	}
	// literals of the repository's own tests (also the fuzz corpus)
	repoLiterals = []string{
		"example.net", "example.net/rp", "mercutio@example.net", "mercutio@example.net/rp", "mercutio@example.net/rp@rp",
		"mercutio@example.net/rp@rp/rp", "mercutio@example.net/@", "mercutio@example.net//@", "mercutio@example.net//@//",
		"[::1]", "127.0.0.1", "juliet@example.com/ foo", "example.net.", "A.Example.nEt.",
		"test@/test", "\xff\xfe\xfd@example.com/rp", "\xff\xfe\xfd/rp", "\xff\xfe\xfd", "example.com/\xff\xfe\xfd", "lp@/rp",
		`b"d@example.net`, `b&d@example.net`, `b'd@example.net`, `b:d@example.net`, `b<d@example.net`, `b>d@example.net`,
		`e@example.net/`, `@example.net/`, `foo bar@example.com`, "henryⅣ@example.com", "♚@example.com", `juliet@`, `/foobar`,
		`[127.0.0.1]`, `[::1`, `::1]`, "@", "/", "xn--", "test@example.net", "", "a", "@/", "/@", "a@b@c", "a/b@c", "a@b/c@d/e",
		"fußball@example.com", "π@example.com", "Σ@example.com/Σ", "user@xn--bcher-kva.example/r",
		"a@b./c", "A@B.C./D",
	}
)

func pick(t *rapid.T, xs []string, label string) string {
	return xs[rapid.IntRange(0, len(xs)-1).Draw(t, label)]
}

// longUnits: (unit, bytes it occupies after normalisation in a local/resource slot).
type unit struct {
	s   string
	out int
}

var (
	longLocal  = []unit{{"a", 1}, {"A", 1}, {"\u00e9", 2}, {"\u00c9", 2}, {"e\u0301", 2}, {"\u0130", 3}, {"\u212a", 1}, {"\u4e2d", 3}, {"\uff21", 1}, {"\u00df", 2}, {"\u044f", 2}}
	longRes    = []unit{{"a", 1}, {"A", 1}, {"\u00e9", 2}, {"e\u0301", 2}, {"\u00a0", 1}, {"\u3000", 1}, {"\u4e2d", 3}, {"/", 1}, {"@", 1}, {"\U0001f600", 4}, {" ", 1}}
	longDomain = []unit{{"a", 1}, {"A", 1}, {"\u00e9", 2}, {"\u00c9", 2}, {"\uff21", 1}, {"abcdefg.", 8}, {"ab\u3002", 3}, {"\u00df", 2}, {"\u4e2d", 3}, {"xn--bcher-kva.", 8}, {"e\u0301", 2}}
)

// genLong builds a part whose *normalised* size lands on 1020..1026 bytes.
func genLong(t *rapid.T, units []unit) string {
	u := units[rapid.IntRange(0, len(units)-1).Draw(t, "longUnit")]
	target := rapid.IntRange(1020, 1026).Draw(t, "longTarget")
	k := target / u.out
	pad := target - k*u.out
	if rapid.Bool().Draw(t, "padFront") {
		return strings.Repeat("b", pad) + strings.Repeat(u.s, k)
	}
	return strings.Repeat(u.s, k) + strings.Repeat("b", pad)
}

type role int

const (
	roleLocal role = iota
	roleDomain
	roleResource
)

// genPart draws one part string.  nice restricts it to pieces that are likely
// to be accepted (so that a useful share of the cases reaches the laws about
// accepted addresses); otherwise everything is possible.
func genPart(t *rapid.T, r role, nice bool) string {
	if r == roleDomain {
		return genDomain(t, nice)
	}
	switch k := rapid.IntRange(0, 39).Draw(t, "partShape"); {
	case k == 0:
		return ""
	case k <= 2 && (k == 1 || !nice):
		if r == roleLocal {
			return genLong(t, longLocal)
		}
		return genLong(t, longRes)
	}
	var b strings.Builder
	n := rapid.IntRange(1, 5).Draw(t, "pieces")
	for i := 0; i < n; i++ {
		hi := 99
		if nice {
			hi = 69
		}
		switch k := rapid.IntRange(0, hi).Draw(t, "kind"); {
		case k < 30:
			b.WriteString(pick(t, plainPieces, "plain"))
		case k < 50:
			b.WriteString(pick(t, mappedPieces, "mapped"))
		case k < 56:
			b.WriteString(pick(t, punctPieces, "punct"))
		case k < 60:
			b.WriteString(pick(t, rtlPieces, "rtl"))
		case k < 64:
			b.WriteString(pick(t, ctxPieces, "ctx"))
		case k < 70:
			if r == roleResource { // separators and blanks are legal inside a resourcepart
				if rapid.Bool().Draw(t, "sepOrSpace") {
					b.WriteString(pick(t, forbiddenPieces, "forbidden"))
				} else {
					b.WriteString(pick(t, spacePieces, "space"))
				}
			} else {
				b.WriteString(pick(t, plainPieces, "plain"))
			}
		case k < 77:
			b.WriteString(pick(t, forbiddenPieces, "forbidden"))
		case k < 83:
			b.WriteString(pick(t, nearForbidden, "nearForbidden"))
		case k < 87:
			b.WriteString(pick(t, spacePieces, "space"))
		case k < 90:
			b.WriteString(pick(t, dotPieces, "dot"))
		case k < 94:
			b.WriteString(pick(t, oddPieces, "odd"))
		case k < 96:
			b.WriteString(pick(t, badUTF8, "badutf8"))
		case k < 98:
			b.WriteString(rapid.StringN(1, 3, -1).Draw(t, "anyString"))
		default:
			b.WriteString(pick(t, domainLabels, "label"))
		}
	}
	return b.String()
}

func genDomain(t *rapid.T, nice bool) string {
	hi := 39
	if nice {
		hi = 33
	}
	switch k := rapid.IntRange(0, hi).Draw(t, "domainShape"); {
	case k == 0 || (k == 1 && !nice):
		return genLong(t, longDomain)
	case k <= 4:
		if nice {
			return pick(t, ipLiterals[:4], "ip")
		}
		return pick(t, ipLiterals, "ip")
	case k >= 37:
		return genPart(t, roleResource, false)
	case k == 36:
		return ""
	}
	var b strings.Builder
	n := rapid.IntRange(1, 4).Draw(t, "labels")
	for i := 0; i < n; i++ {
		if i > 0 {
			if rapid.IntRange(0, 5).Draw(t, "dotKind") == 0 {
				b.WriteString(pick(t, dotPieces, "dot"))
			} else {
				b.WriteByte('.')
			}
		}
		if nice {
			b.WriteString(domainLabels[rapid.IntRange(0, 60).Draw(t, "label")])
		} else {
			b.WriteString(pick(t, domainLabels, "label"))
		}
	}
	// trailing label separators: none, one, several, non-ASCII ones
	for k := rapid.IntRange(0, 9).Draw(t, "trailingDots"); k >= 7; k-- {
		b.WriteString(pick(t, dotPieces[:4], "trailDot"))
	}
	return b.String()
}

// genString draws a whole address string.
func genString(t *rapid.T) (s string, class string) {
	switch k := rapid.IntRange(0, 19).Draw(t, "stringShape"); {
	case k < 9:
		nice := k < 6
		l := genPart(t, roleLocal, nice)
		d := genPart(t, roleDomain, nice)
		r := genPart(t, roleResource, nice)
		return assemble(l, d, r), "str-assembled"
	case k < 13: // a literal of the repository's tests with one piece spliced in
		lit := pick(t, repoLiterals, "literal")
		if rapid.Bool().Draw(t, "verbatim") {
			return lit, "str-literal"
		}
		pos := rapid.IntRange(0, len(lit)).Draw(t, "pos")
		end := pos
		if rapid.Bool().Draw(t, "replace") && pos < len(lit) {
			end = pos + 1
		}
		return lit[:pos] + genPiece(t) + lit[end:], "str-literal-mutated"
	case k < 16: // raw pieces, separators anywhere (also leading/trailing/doubled)
		var b strings.Builder
		n := rapid.IntRange(0, 7).Draw(t, "pieces")
		for i := 0; i < n; i++ {
			if rapid.IntRange(0, 2).Draw(t, "isSep") == 0 {
				b.WriteString(pick(t, []string{"@", "/", "@", "/", "@@", "//", "/@", "@/"}, "sep"))
			} else {
				b.WriteString(genPiece(t))
			}
		}
		return b.String(), "str-pieces"
	case k < 18:
		return rapid.String().Draw(t, "anyString"), "str-unicode"
	default:
		return string(rapid.SliceOfN(rapid.Byte(), 0, 12).Draw(t, "bytes")), "str-bytes"
	}
}

func genPiece(t *rapid.T) string {
	switch k := rapid.IntRange(0, 13).Draw(t, "pieceKind"); k {
	case 0, 1, 2:
		return pick(t, plainPieces, "plain")
	case 3, 4:
		return pick(t, mappedPieces, "mapped")
	case 5:
		return pick(t, forbiddenPieces, "forbidden")
	case 6:
		return pick(t, nearForbidden, "nearForbidden")
	case 7:
		return pick(t, spacePieces, "space")
	case 8:
		return pick(t, dotPieces, "dot")
	case 9:
		return pick(t, domainLabels, "label")
	case 10:
		return pick(t, ipLiterals, "ip")
	case 11:
		return pick(t, ctxPieces, "ctx")
	case 12:
		return pick(t, oddPieces, "odd")
	default:
		return pick(t, badUTF8, "badutf8")
	}
}
