package c11

// Histories: JIDs are immutable values.  A case obtains a number of values
// from one another (Parse/New, Bare, Domain, Copy, WithLocal, WithDomain,
// WithResource, in chains such as j.Bare().WithResource(r) or
// j.Domain().WithLocal(l).WithResource(r), and siblings derived from one
// parent); every value obtained so far must keep its String(), its parts and
// its Equal relations after every later call, and at the end of the case the
// laws (canon), (parts), (agree) and (build) must hold for ALL of them, not
// only for the last result.
//
// The oracle is a snapshot of the parts taken when a value is obtained, the
// expected parts computed from the parent's snapshot by the reference model
// (Bare drops the resourcepart, ...), and jid.New on the replaced part.

import (
	"encoding/xml"
	"fmt"
	"strings"
	"testing"
	"unicode"
	"unicode/utf8"

	"pgregory.net/rapid"

	"mellium.im/xmpp/jid"
	"mellium.im/xmpp/verifharness/internal/ev"
)

type opKind int

const (
	opBare opKind = iota
	opDomain
	opCopy
	opReparse // Parse(v.String())
	opRebuild // New(parts of v)
	opWithLocal
	opWithDomain
	opWithResource
	opDecodeAttr // UnmarshalXMLAttr into a copy of an existing (populated) value
	opDecodeElem // UnmarshalXML into a copy of an existing (populated) value
)

var opNames = [...]string{"Bare()", "Domain()", "Copy()", "<Parse(String())>", "<New(parts)>", "WithLocal", "WithDomain", "WithResource", "<UnmarshalXMLAttr into a copy>", "<UnmarshalXML into a copy>"}

type opSpec struct {
	kind   opKind
	target int // index of the receiver among the values obtained so far (taken modulo their number)
	arg    string
	// opDecodeElem: how the text is spelled inside the element: cut at cut% of
	// its runes, each half as escaped text (0), a CDATA section (1) or numeric
	// character references (2)
	cut, spellA, spellB int
}

func (o opSpec) spell(text string) string {
	runes := []rune(text)
	at := len(runes) * o.cut / 100
	var sb strings.Builder
	for i, run := range []string{string(runes[:at]), string(runes[at:])} {
		kind := o.spellA
		if i == 1 {
			kind = o.spellB
		}
		if kind == 1 && strings.Contains(run, "]]>") {
			kind = 0
		}
		switch kind {
		case 1:
			sb.WriteString("<![CDATA[" + run + "]]>")
		case 2:
			for _, r := range run {
				fmt.Fprintf(&sb, "&#x%X;", r)
			}
		default:
			_ = xml.EscapeText(&sb, []byte(run))
		}
	}
	return sb.String()
}

type hval struct {
	j      jid.JID
	snap   parts
	parent int    // -1 for the start value
	via    opKind // operation that produced it
}

type history struct {
	c    cx
	vals []hval
	log  []string
	// for the non-trivial rule
	chain, sibling, shrunk bool
	decodedNear            bool // an encoding differing only in letter case from the held address was decoded
}

// decodeText derives the text to decode from the string form of the value held
// (own) or of the first value of the history.
func decodeText(mode, own, first string) string {
	switch mode {
	case "same":
		return own
	case "upper":
		return strings.ToUpper(own)
	case "lower":
		return strings.ToLower(own)
	case "swaplast":
		rs := []rune(own)
		for i := len(rs) - 1; i >= 0; i-- {
			if u, l := unicode.ToUpper(rs[i]), unicode.ToLower(rs[i]); u != l {
				if rs[i] == u {
					rs[i] = l
				} else {
					rs[i] = u
				}
				break
			}
		}
		return string(rs)
	case "sigma":
		return strings.NewReplacer("\u03c3", "\u03c2", "\u03c2", "\u03c3", "s", "\u017f", "k", "\u212a").Replace(own)
	case "first":
		return first
	}
	return mode // a literal
}

func (h *history) note(format string, args ...any) {
	h.log = append(h.log, fmt.Sprintf(format, args...))
	h.c.in = "history (every value must stay what it was when it was obtained):\n  " + strings.Join(h.log, "\n  ")
}

func (h *history) add(j jid.JID, parent int, via opKind) {
	h.vals = append(h.vals, hval{j: j, snap: h.c.parts(fmt.Sprintf("v%d", len(h.vals)), j), parent: parent, via: via})
}

// verify: every value obtained so far still has the String() and the parts it
// had when it was obtained.
func (h *history) verify() {
	for i, v := range h.vals {
		if now := h.c.parts(fmt.Sprintf("v%d", i), v.j); now != v.snap {
			h.c.fail("v%d was %v when it was obtained and is %v after the last step: an address that had been returned changed", i, v.snap, now)
		}
	}
}

func (h *history) start(how string, j jid.JID) {
	h.note("v0 = %s", how)
	h.add(j, -1, opCopy)
	h.note("   = %v", h.vals[0].snap)
}

// step applies one operation.  It reports whether a new value was obtained.
func (h *history) step(op opSpec) bool {
	c := &h.c
	ti := op.target % len(h.vals)
	recv := h.vals[ti]
	p := recv.snap
	n := len(h.vals)
	var got jid.JID
	var gerr error
	var want parts // expected parts, for the operations that cannot fail
	checkWant := false
	switch op.kind {
	case opBare, opDomain, opCopy:
		h.note("v%d = v%d.%s", n, ti, opNames[op.kind])
		if pn := ev.Guard(func() {
			switch op.kind {
			case opBare:
				got = recv.j.Bare()
			case opDomain:
				got = recv.j.Domain()
			default:
				got = recv.j.Copy()
			}
		}); pn != "" {
			c.fail("v%d.%s: %s", ti, opNames[op.kind], pn)
		}
		switch op.kind {
		case opBare:
			want = parts{p.l, p.d, "", assemble(p.l, p.d, "")}
		case opDomain:
			want = parts{"", p.d, "", p.d}
		default:
			want = p
		}
		checkWant = true
	case opReparse:
		h.note("v%d = Parse(v%d.String()) = Parse(%q)", n, ti, p.s)
		got, gerr = c.parse(p.s)
		if gerr != nil {
			c.fail("v%d = %v was returned without error but Parse(%q) fails: %v", ti, p, p.s, gerr)
		}
		want, checkWant = p, true
	case opRebuild:
		h.note("v%d = New(%q, %q, %q) (the parts of v%d)", n, p.l, p.d, p.r, ti)
		got, gerr = c.newJID(p.l, p.d, p.r)
		if gerr != nil {
			c.fail("v%d = %v was returned without error but New of its parts fails: %v", ti, p, gerr)
		}
		want, checkWant = p, true
	case opWithLocal, opWithDomain, opWithResource:
		h.note("v%d = v%d.%s(%q)", n, ti, opNames[op.kind], op.arg)
		in := [3]string{p.l, p.d, p.r}
		in[op.kind-opWithLocal] = op.arg
		if pn := ev.Guard(func() {
			switch op.kind {
			case opWithLocal:
				got, gerr = recv.j.WithLocal(op.arg)
			case opWithDomain:
				got, gerr = recv.j.WithDomain(op.arg)
			default:
				got, gerr = recv.j.WithResource(op.arg)
			}
		}); pn != "" {
			c.fail("v%d.%s(%q): %s", ti, opNames[op.kind], op.arg, pn)
		}
		// replacing one part agrees with building from the parts; the parts of
		// the receiver are the ones it had when it was obtained
		wj, werr := c.newJID(in[0], in[1], in[2])
		c.same(fmt.Sprintf("v%d.%s(%q)", ti, opNames[op.kind], op.arg), got, gerr,
			fmt.Sprintf("New(%q, %q, %q)", in[0], in[1], in[2]), wj, werr)
		if gerr == nil && op.kind == opWithResource && op.arg != "" {
			if recv.via == opBare || recv.via == opDomain {
				h.chain = true
			}
			if p.r == "" {
				for _, v := range h.vals[ti+1:] {
					if v.parent == ti && v.via == opWithResource {
						h.sibling = true
					}
				}
			}
		}
	case opDecodeAttr, opDecodeElem:
		// the encoding of an address, decoded into a variable that still holds
		// another (often nearly the same) address: the variable then holds the
		// address that was on the wire, and the value it held before is untouched
		text := decodeText(op.arg, p.s, h.vals[0].snap.s)
		h.note("v%d = %s(%q) into a copy of v%d", n, opNames[op.kind], text, ti)
		holder := recv.j
		if pn := ev.Guard(func() {
			if op.kind == opDecodeAttr {
				gerr = holder.UnmarshalXMLAttr(xml.Attr{Name: xml.Name{Local: "from"}, Value: text})
			} else {
				var sb strings.Builder
				sb.WriteString("<jid>")
				sb.WriteString(op.spell(text))
				sb.WriteString("</jid>")
				d := xml.NewDecoder(strings.NewReader(sb.String()))
				tok, err := d.Token()
				if err != nil {
					gerr = err
					return
				}
				gerr = holder.UnmarshalXML(d, tok.(xml.StartElement))
			}
		}); pn != "" {
			c.fail("decoding %q into a copy of v%d: %s", text, ti, pn)
		}
		got = holder
		wj, werr := c.parse(text)
		c.same(fmt.Sprintf("%s(%q) into a variable holding %v", opNames[op.kind], text, p), got, gerr, fmt.Sprintf("Parse(%q)", text), wj, werr)
		if gerr == nil && text != p.s && strings.EqualFold(text, p.s) {
			h.decodedNear = true
		}
	}
	if gerr != nil {
		h.note("   = error %v", gerr)
		h.verify() // a failed call must not have touched anything either
		return false
	}
	h.add(got, ti, op.kind)
	h.note("   = %v", h.vals[n].snap)
	if checkWant && h.vals[n].snap != want {
		c.fail("v%d = %v, but from v%d = %v it must be %v", n, h.vals[n].snap, ti, p, want)
	}
	if !c.equal("new value", got, got) {
		c.fail("v%d is not Equal to itself", n)
	}
	h.verify()
	return true
}

// finish: at the end of the case the laws hold for all values obtained.
func (h *history) finish() {
	c := &h.c
	h.note("end of the case: laws re-checked for v0..v%d", len(h.vals)-1)
	for i, v := range h.vals {
		what := fmt.Sprintf("v%d", i)
		p := v.snap
		for _, x := range []string{p.l, p.d, p.r} {
			if !utf8.ValidString(x) || len(x) > maxPart {
				c.fail("%s = %v has a part that is not valid UTF-8 or too long", what, p)
			}
		}
		if p.d == "" || strings.ContainsAny(p.l, forbiddenLocal) || p.s != assemble(p.l, p.d, p.r) {
			c.fail("%s = %v: empty domainpart, forbidden localpart character, or String() is not the parts reassembled", what, p)
		}
		j2, err := c.parse(p.s)
		c.same(what, v.j, nil, fmt.Sprintf("Parse(%q)", p.s), j2, err)
		j3, err := c.newJID(p.l, p.d, p.r)
		c.same(what, v.j, nil, fmt.Sprintf("New(%q, %q, %q)", p.l, p.d, p.r), j3, err)
	}
	// Equal relations among all of them are those of the parts they were obtained with
	for i := range h.vals {
		for k := i; k < len(h.vals); k++ {
			a, b := h.vals[i], h.vals[k]
			want := a.snap.l == b.snap.l && a.snap.d == b.snap.d && a.snap.r == b.snap.r
			ab, ba := c.equal("pair", a.j, b.j), c.equal("pair", b.j, a.j)
			if ab != want || ba != want {
				c.fail("v%d.Equal(v%d) = %v, v%d.Equal(v%d) = %v, but v%d = %v and v%d = %v", i, k, ab, k, i, ba, i, a.snap, k, b.snap)
			}
		}
	}
	h.verify()
	// the first and the last value also get the complete single-address check (XML, Bare, Domain ...)
	c.checkJID("v0", h.vals[0].j)
	c.checkJID(fmt.Sprintf("v%d", len(h.vals)-1), h.vals[len(h.vals)-1].j)
	h.verify()
}

func (h *history) canon() string { return strings.Join(h.log, ";") }

// ---------------------------------------------------------------- generator

// Parts for histories are short (the point is the sequence, not the size) and
// come in lengths 0..24 bytes, single- and multi-byte, so that a replacement is
// sometimes shorter, sometimes exactly as long, sometimes longer than what it
// replaces or than the spare room a shrinking localpart leaves behind.
var (
	histLocals = []string{
		"", "juliet", "romeo", "a", "ab", "JULIET", "R",
		"\uff4a\uff55\uff4c\uff49\uff45\uff54", "\uff21", "\uff21\uff22\uff23\uff24\uff25\uff26\uff27\uff28", // fullwidth: 3 bytes -> 1
		"e\u0301", "e\u0301e\u0301e\u0301e\u0301", "A\u030a", "\u1112\u1161\u11ab\u1112\u1161\u11ab", // decomposed: shrink under NFC
		"\u212a\u212a\u212a\u212a", "\u00e9", "\u00c9t\u00e9", "\u4e2d", "\u044f\u0436", "\u00df", // KELVIN SIGN: 3 bytes -> 1
	}
	histDomains = []string{
		"example.net", "EXAMPLE.net", "example.com.", "d", "xn--bcher-kva.example", "b\u00fccher.example",
		"\uff45\uff58\uff41\uff4d\uff50\uff4c\uff45.net", "[::1]", "127.0.0.1", "\u4e2d\u56fd", "a.b.c.d.e.f",
	}
	histResources = []string{
		"", "balcony", "orchard", "chamber", "abc", "x", "xy", "a\u00e9", "\u00e9", "\u00e9\u00e9", "\u4e2d", "\u4e2d\u4e2d\u4e2d",
		"\U0001f600", "r/@", "/", "@", " ", "    ", "\u3000x", "e\u0301", "0123456789abcdefghijklmn", "Balcony", "a b",
	}
)

func genHistPart(t *rapid.T, r role) string {
	if rapid.IntRange(0, 9).Draw(t, "richPart") == 0 {
		s := genPart(t, r, true)
		if len(s) > 64 { // keep histories cheap; long parts are the business of the other properties
			s = strings.ToValidUTF8(s[:64], "")
		}
		return s
	}
	switch r {
	case roleLocal:
		return pick(t, histLocals, "histLocal")
	case roleDomain:
		return pick(t, histDomains, "histDomain")
	}
	return pick(t, histResources, "histResource")
}

func genOp(t *rapid.T, nvals int) opSpec {
	var op opSpec
	switch k := rapid.IntRange(0, 20).Draw(t, "op"); {
	case k < 4:
		op.kind = opBare
	case k < 6:
		op.kind = opDomain
	case k < 7:
		op.kind = opCopy
	case k < 8:
		op.kind = opReparse
	case k < 9:
		op.kind = opRebuild
	case k < 12:
		op.kind = opWithLocal
		op.arg = genHistPart(t, roleLocal)
	case k < 13:
		op.kind = opWithDomain
		op.arg = genHistPart(t, roleDomain)
	case k < 18:
		op.kind = opWithResource
		op.arg = genHistPart(t, roleResource)
	default:
		op.kind = opDecodeAttr
		if rapid.IntRange(0, 2).Draw(t, "elem") == 0 {
			op.kind = opDecodeElem
			op.cut = rapid.IntRange(0, 100).Draw(t, "spellcut")
			op.spellA = rapid.IntRange(0, 2).Draw(t, "spellA")
			op.spellB = rapid.IntRange(0, 2).Draw(t, "spellB")
		}
		op.arg = rapid.SampledFrom([]string{"same", "upper", "lower", "swaplast", "swaplast", "sigma", "first", "juliet@example.net/Balcony", "not a@jid@"}).Draw(t, "decode")
	}
	// receiver: mostly a recent value (chains) or the same one again (siblings)
	switch k := rapid.IntRange(0, 3).Draw(t, "recv"); k {
	case 0:
		op.target = nvals - 1
	case 1:
		if nvals >= 2 {
			op.target = nvals - 2
		}
	default:
		op.target = rapid.IntRange(0, nvals-1).Draw(t, "target")
	}
	return op
}

func TestC11History(t *testing.T) {
	ev.Check(t, 9000, 200000, func(rt *rapid.T) {
		h := &history{c: cx{t: rt}}
		l, d, r := genHistPart(rt, roleLocal), genHistPart(rt, roleDomain), genHistPart(rt, roleResource)
		viaParse := rapid.Bool().Draw(rt, "viaParse")
		nops := rapid.IntRange(2, 8).Draw(rt, "nops")
		var j jid.JID
		var err error
		var how string
		if sl, sd, sr, clean := refSplit(assemble(l, d, r)); viaParse && clean && sl == l && sd == d && sr == r {
			how = fmt.Sprintf("Parse(%q)", assemble(l, d, r))
			j, err = h.c.parse(assemble(l, d, r))
		} else {
			how = fmt.Sprintf("New(%q, %q, %q)", l, d, r)
			j, err = h.c.newJID(l, d, r)
		}
		if err != nil {
			fb := pick(rt, fallbackBases, "fallback")
			how = fmt.Sprintf("Parse(%q)", fb)
			if j, err = h.c.parse(fb); err != nil {
				h.c.in = how
				h.c.fail("fallback base does not parse: %v", err)
			}
			ev.Class("base-fallback")
		}
		recorded := false
		rec := func() {
			if recorded {
				return
			}
			recorded = true
			classes := []string{"history"}
			if h.chain {
				classes = append(classes, "hist-resource-after-bare-or-domain")
			}
			if h.sibling {
				classes = append(classes, "hist-sibling-resources")
			}
			if h.decodedNear {
				classes = append(classes, "hist-decoded-into-a-variable-holding-the-address-in-other-letter-case")
			}
			if len(h.vals) > 0 && len(h.vals[0].snap.l) < len(l) {
				classes = append(classes, "hist-localpart-shrank")
			}
			ev.Case(h.chain || h.sibling || h.decodedNear, "hist|"+h.canon(), classes...)
		}
		defer rec()
		h.start(how, j)
		for i := 0; i < nops; i++ {
			h.step(genOp(rt, len(h.vals)))
		}
		// make the most telling shapes frequent: finish half of the cases with a
		// resourcepart put on a bare/domain form of an earlier value, twice
		if rapid.Bool().Draw(rt, "tail") {
			ti := rapid.IntRange(0, len(h.vals)-1).Draw(rt, "tailTarget")
			kind := opBare
			if rapid.IntRange(0, 3).Draw(rt, "tailDomain") == 0 {
				kind = opDomain
			}
			if h.step(opSpec{kind: kind, target: ti}) {
				b := len(h.vals) - 1
				h.step(opSpec{kind: opWithResource, target: b, arg: genHistPart(rt, roleResource)})
				h.step(opSpec{kind: opWithResource, target: b, arg: genHistPart(rt, roleResource)})
			}
		}
		h.finish()
	})
}

// runScript replays a fixed history (regressions, fuzz target).
func runScript(t fataler, how string, j jid.JID, ops []opSpec) *history {
	h := &history{c: cx{t: t}}
	h.start(how, j)
	for _, op := range ops {
		h.step(op)
	}
	h.finish()
	return h
}

// TestC11RegressHistory: concrete histories (seeded defect C11-r2: WithResource
// on a receiver without resourcepart appended in place, into the backing array
// it shares with the address it was obtained from).
func TestC11RegressHistory(t *testing.T) {
	ev.Begin(t)
	wr := func(target int, r string) opSpec { return opSpec{kind: opWithResource, target: target, arg: r} }
	wl := func(target int, l string) opSpec { return opSpec{kind: opWithLocal, target: target, arg: l} }
	wd := func(target int, d string) opSpec { return opSpec{kind: opWithDomain, target: target, arg: d} }
	for _, sc := range []struct {
		start string // parsed, or built with New when it has the form l|d|r
		ops   []opSpec
	}{
		{"juliet@example.net/balcony", []opSpec{{kind: opBare}, wr(1, "orchard")}},
		{"juliet@example.net/balcony", []opSpec{{kind: opBare}, wr(1, "orchard"), wr(1, "chamber")}},
		{"example.net/abc", []opSpec{{kind: opDomain}, wr(1, "\u00e9")}},
		{"romeo@example.net/a\u00e9", []opSpec{{kind: opBare}, wr(1, "\u00e9")}},
		{"\uff4a\uff55\uff4c\uff49\uff45\uff54|example.net|", []opSpec{wr(0, "orchard"), wr(0, "chamber")}},
		{"e\u0301e\u0301e\u0301|example.net|", []opSpec{wr(0, "ab"), wr(0, "cd"), wr(0, "\u00e9")}},
		{"juliet@example.net/balcony", []opSpec{{kind: opDomain}, wl(1, "romeo"), wr(2, "x"), wr(2, "y"), wr(1, "zz")}},
		{"juliet@example.net/balcony", []opSpec{{kind: opBare}, wl(1, "R"), wr(2, "orchard"), wd(1, "d"), wr(4, "q"), wr(4, "rs")}},
		{"a@example.net/0123456789", []opSpec{{kind: opBare}, {kind: opCopy, target: 1}, wr(1, "abc"), wr(2, "de"), {kind: opBare, target: 3}, wr(5, "fgh")}},
		{"\uff21\uff22\uff23\uff24|example.net|r", []opSpec{wr(0, ""), wr(1, "abcdefgh"), wr(1, "ABCDEFGH"), wl(1, "\uff41\uff42"), wr(4, "xy"), wr(4, "zw")}},
		{"example.net/abc", []opSpec{wl(0, "\uff21\uff22"), {kind: opBare, target: 1}, wr(2, "q"), wr(2, "r"), wd(2, "EXAMPLE.com."), wr(5, "s")}},
	} {
		var j jid.JID
		var err error
		var how string
		c := cx{t: t, in: "history start " + sc.start}
		if f := strings.Split(sc.start, "|"); len(f) == 3 {
			how = fmt.Sprintf("New(%q, %q, %q)", f[0], f[1], f[2])
			j, err = c.newJID(f[0], f[1], f[2])
		} else {
			how = fmt.Sprintf("Parse(%q)", sc.start)
			j, err = c.parse(sc.start)
		}
		if err != nil {
			c.fail("regression start value is rejected: %v", err)
		}
		ev.Case(true, fmt.Sprintf("regress-history|%s|%v", sc.start, sc.ops), "regress", "history")
		runScript(t, how, j, sc.ops)
	}
}
