package c19

import (
	"fmt"
	"reflect"
	"strings"

	"pgregory.net/rapid"

	"mellium.im/xmpp/form"
	"mellium.im/xmpp/jid"
)

// ------------------------------------------------------- model of a form

type fieldM struct {
	Typ, Var, Label, Desc string
	Required              bool
	Values                []string
	Opts                  []form.FieldOpt
}

type formM struct {
	Title, Instr string
	Fields       []fieldM
}

// modelOf reads a form back through its exported accessors only.
func modelOf(d *form.Data) formM {
	m := formM{Title: d.Title(), Instr: d.Instructions()}
	d.ForFields(func(f form.FieldData) {
		fm := fieldM{Typ: string(f.Type), Var: f.Var, Label: f.Label, Desc: f.Desc, Required: f.Required}
		fm.Values = append(fm.Values, f.Raw...)
		if f.Type == form.TypeList || f.Type == form.TypeListMulti {
			opts, _ := d.GetOptions(f.Var)
			fm.Opts = append(fm.Opts, opts...)
		}
		m.Fields = append(m.Fields, fm)
	})
	return m
}

func multiValued(typ string) bool {
	// XEP-0004 §3.2 and the documentation of form.Value: "Fields of type
	// ListMulti, JidMulti, TextMulti, and Hidden may contain more than one
	// Value; all other field types will only use the first Value."
	switch form.FieldType(typ) {
	case form.TypeListMulti, form.TypeJIDMulti, form.TypeTextMulti, form.TypeHidden:
		return true
	}
	return false
}

// normValues is the reference for the value clean-up the encoder performs:
// empty values are not representable as data, booleans and addresses that do
// not parse are dropped, single-valued field types keep the first usable value.
func normValues(typ string, raw []string) []string {
	var out []string
	for _, v := range raw {
		if v == "" {
			continue
		}
		switch form.FieldType(typ) {
		case form.TypeBoolean:
			if v != "true" && v != "false" && v != "0" && v != "1" {
				continue
			}
		case form.TypeJID, form.TypeJIDMulti:
			if _, err := jid.Parse(v); err != nil {
				continue
			}
		}
		out = append(out, v)
		if !multiValued(typ) {
			break
		}
	}
	return out
}

func normInstr(s string) string {
	var lines []string
	for _, l := range strings.Split(s, "\n") {
		if l != "" {
			lines = append(lines, l)
		}
	}
	return strings.Join(lines, "\n")
}

// normModel applies the documented normalisations of the wire format to the
// model of the original form.
func normModel(m formM) formM {
	out := formM{
		Title: strings.ReplaceAll(m.Title, "\n", " "), // "title cannot contain newlines"
		Instr: normInstr(m.Instr),                     // one <instructions/> per non-empty line
	}
	for _, f := range m.Fields {
		g := f
		g.Values = normValues(f.Typ, f.Values)
		if f.Typ != string(form.TypeList) && f.Typ != string(form.TypeListMulti) {
			g.Opts = nil // "ListItem has no effect on any non-list field type"
		}
		out.Fields = append(out.Fields, g)
	}
	return out
}

func diffModels(want, got formM) string {
	var d differ
	d.str("title", want.Title, got.Title)
	d.str("instructions", want.Instr, got.Instr)
	if len(want.Fields) != len(got.Fields) {
		d.add(fmt.Sprintf("number of fields: %d became %d", len(want.Fields), len(got.Fields)))
		return d.String()
	}
	for i := range want.Fields {
		w, g := want.Fields[i], got.Fields[i]
		p := fmt.Sprintf("field[%d]", i)
		d.str(p+".type", w.Typ, g.Typ)
		d.str(p+".var", w.Var, g.Var)
		d.str(p+".label", w.Label, g.Label)
		d.str(p+".desc", w.Desc, g.Desc)
		d.val(p+".required", w.Required, g.Required)
		d.strs(p+"("+w.Typ+").values", w.Values, g.Values)
		if !reflect.DeepEqual(w.Opts, g.Opts) && (len(w.Opts) > 0 || len(g.Opts) > 0) {
			d.add(fmt.Sprintf("%s.options: %q became %q", p, w.Opts, g.Opts))
		}
	}
	return d.String()
}

func eqForm(orig, got *form.Data) string {
	if orig == nil || got == nil {
		if orig == got {
			return ""
		}
		return fmt.Sprintf("form: %v became %v", orig, got)
	}
	return diffModels(normModel(modelOf(orig)), modelOf(got))
}

// ------------------------------------------------------------ generator

var fieldIDs = []string{"f", "FORM_TYPE", "muc#roomconfig_roomname", "a<b", "q\"1'", "x&y", "naïve", "with space", "n\nl"}

type fieldPlan struct {
	Typ  form.FieldType
	ID   string
	Opts []string // rendered options, for the canonical case string
}

func genValueFor(t *rapid.T, typ form.FieldType) string {
	switch typ {
	case form.TypeBoolean:
		return rapid.SampledFrom([]string{"true", "false", "0", "1", "yes", "", "TRUE"}).Draw(t, "boolv")
	case form.TypeJID, form.TypeJIDMulti:
		if rapid.IntRange(0, 4).Draw(t, "badjid") == 0 {
			return rapid.SampledFrom([]string{"", "@", "a@", "/x", "a@b@c"}).Draw(t, "badj")
		}
		return genJID().Draw(t, "jidv").String()
	}
	return genText().Draw(t, "value")
}

func genFieldOptions(t *rapid.T, typ form.FieldType) (opts []form.Option, desc []string) {
	if rapid.Bool().Draw(t, "required") {
		opts = append(opts, form.Required)
		desc = append(desc, "Required")
	}
	if rapid.Bool().Draw(t, "hasLabel") {
		s := genText().Draw(t, "label")
		opts = append(opts, form.Label(s))
		desc = append(desc, fmt.Sprintf("Label(%q)", s))
	}
	if rapid.Bool().Draw(t, "hasDesc") {
		s := genText().Draw(t, "desc")
		opts = append(opts, form.Desc(s))
		desc = append(desc, fmt.Sprintf("Desc(%q)", s))
	}
	nv := rapid.SampledFrom([]int{0, 0, 1, 1, 1, 2, 3}).Draw(t, "nvalues")
	for i := 0; i < nv; i++ {
		s := genValueFor(t, typ)
		opts = append(opts, form.Value(s))
		desc = append(desc, fmt.Sprintf("Value(%q)", s))
	}
	no := 0
	if typ == form.TypeList || typ == form.TypeListMulti || rapid.IntRange(0, 5).Draw(t, "optsAnyway") == 0 {
		no = listLen(t, "nopts", 3)
	}
	for i := 0; i < no; i++ {
		l, v := genText().Draw(t, "optlabel"), genText().Draw(t, "optvalue")
		opts = append(opts, form.ListItem(l, v))
		desc = append(desc, fmt.Sprintf("ListItem(%q,%q)", l, v))
	}
	return opts, desc
}

var fieldTypes = []form.FieldType{
	form.TypeBoolean, form.TypeFixed, form.TypeHidden, form.TypeJIDMulti, form.TypeJID,
	form.TypeListMulti, form.TypeList, form.TypeTextMulti, form.TypeTextPrivate, form.TypeText,
}

func mkField(typ form.FieldType, id string, o ...form.Option) form.Field {
	switch typ {
	case form.TypeBoolean:
		return form.Boolean(id, o...)
	case form.TypeFixed:
		return form.Fixed(o...)
	case form.TypeHidden:
		return form.Hidden(id, o...)
	case form.TypeJIDMulti:
		return form.JIDMulti(id, o...)
	case form.TypeJID:
		return form.JID(id, o...)
	case form.TypeListMulti:
		return form.ListMulti(id, o...)
	case form.TypeList:
		return form.List(id, o...)
	case form.TypeTextMulti:
		return form.TextMulti(id, o...)
	case form.TypeTextPrivate:
		return form.TextPrivate(id, o...)
	}
	return form.Text(id, o...)
}

// genFormPlan builds a form through form.New / form.Cancel and the field
// constructors; plans records what was built (unique field names so that the
// by-name accessors are unambiguous).
func genFormPlan(t *rapid.T) (*form.Data, []fieldPlan, string) {
	var fields []form.Field
	var plans []fieldPlan
	var head []string
	title, instr := "", ""
	if rapid.Bool().Draw(t, "hasTitle") {
		title = genText().Draw(t, "title")
	}
	if rapid.Bool().Draw(t, "hasInstr") {
		instr = genText().Draw(t, "instr")
	}
	if rapid.IntRange(0, 7).Draw(t, "cancel") == 0 {
		return form.Cancel(title, instr), nil, fmt.Sprintf("Cancel(%q,%q)", title, instr)
	}
	if title != "" {
		fields = append(fields, form.Title(title))
		head = append(head, fmt.Sprintf("Title(%q)", title))
	}
	if instr != "" {
		fields = append(fields, form.Instructions(instr))
		head = append(head, fmt.Sprintf("Instructions(%q)", instr))
	}
	if rapid.IntRange(0, 3).Draw(t, "result") == 0 {
		fields = append(fields, form.Result)
		head = append(head, "Result")
	}
	n := rapid.SampledFrom([]int{0, 1, 1, 2, 2, 3, 4, 6}).Draw(t, "nfields")
	for i := 0; i < n; i++ {
		typ := rapid.SampledFrom(fieldTypes).Draw(t, "ftype")
		id := fmt.Sprintf("%s%d", rapid.SampledFrom(fieldIDs).Draw(t, "fid"), i)
		if typ == form.TypeFixed {
			id = ""
		}
		opts, desc := genFieldOptions(t, typ)
		fields = append(fields, mkField(typ, id, opts...))
		plans = append(plans, fieldPlan{typ, id, desc})
		head = append(head, fmt.Sprintf("%s(%q %s)", typ, id, strings.Join(desc, " ")))
	}
	return form.New(fields...), plans, "New(" + strings.Join(head, ", ") + ")"
}

func genForm() *rapid.Generator[*form.Data] {
	return rapid.Custom(func(t *rapid.T) *form.Data {
		d, _, _ := genFormPlan(t)
		return d
	})
}

func formNontrivial(d *form.Data) bool {
	m := modelOf(d)
	special := hasSpecial(m.Title) || hasSpecial(m.Instr)
	vals := 0
	for _, f := range m.Fields {
		special = special || hasSpecial(f.Label) || hasSpecial(f.Desc) || hasSpecial(f.Var)
		for _, v := range f.Values {
			vals++
			special = special || hasSpecial(v)
		}
	}
	return special && len(m.Fields) > 0 && vals > 0
}

func formClasses(d *form.Data) []string {
	var cl []string
	m := modelOf(d)
	if strings.Contains(m.Title, "\n") {
		cl = append(cl, "title-with-newline")
	}
	if strings.Contains(m.Instr, "\n") {
		cl = append(cl, "multi-line-instructions")
	}
	for _, f := range m.Fields {
		cl = append(cl, "field:"+f.Typ)
		if len(f.Values) > 1 {
			cl = append(cl, "multi-value:"+f.Typ)
		}
		for _, v := range f.Values {
			if strings.HasSuffix(v, "\n") {
				cl = append(cl, "value-ends-in-newline")
			}
			if v == "" {
				cl = append(cl, "empty-value")
			}
		}
	}
	return cl
}

func init() {
	add(spec[*form.Data]{
		name:       "form.Data",
		gen:        func(t *rapid.T) *form.Data { return genForm().Draw(t, "form") },
		eq:         eqForm,
		nontrivial: formNontrivial,
		classes:    formClasses,
		seeds: []string{
			`<x xmlns="jabber:x:data" type="submit"><title>t</title><instructions>i</instructions><field type="text-multi" var="a"><value>x</value><value></value></field><field type="boolean" var="b"><required/><value>1</value></field><field var="c" type="jid-multi"><value>a@b</value><value>@</value></field><field type="list-single" var="d"><option label="l"><value>v</value></option></field><field type="fixed"><value>f</value></field></x>`,
			`<x xmlns="jabber:x:data" type="submit"><field type="text-multi" var="a"><required/><value></value></field></x>`,
			`<x xmlns="jabber:x:data" type="form"><field var="a"><desc>d</desc><value>v</value></field><reported/><item/></x>`,
		},
	})
}
