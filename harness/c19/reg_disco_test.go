package c19

import (
	"fmt"

	"pgregory.net/rapid"

	"mellium.im/xmpp/crypto"
	"mellium.im/xmpp/disco"
	"mellium.im/xmpp/disco/info"
	"mellium.im/xmpp/disco/items"
	"mellium.im/xmpp/form"
)

func genFeature(t *rapid.T) info.Feature {
	return info.Feature{Var: genText().Draw(t, "var")}
}

func genIdentity(t *rapid.T) info.Identity {
	return info.Identity{
		Category: genText().Draw(t, "category"),
		Type:     genText().Draw(t, "type"),
		Name:     genOpt().Draw(t, "name"),
		Lang:     rapid.SampledFrom([]string{"", "", "en", "de-CH", "x-<&>", "日本"}).Draw(t, "lang"),
	}
}

func eqIdentity(p string, a, b info.Identity) string {
	var d differ
	d.str(p+"category", a.Category, b.Category)
	d.str(p+"type", a.Type, b.Type)
	d.str(p+"name", a.Name, b.Name)
	d.str(p+"lang", a.Lang, b.Lang)
	return d.String()
}

var hashes = []crypto.Hash{crypto.SHA1, crypto.SHA224, crypto.SHA256, crypto.SHA384, crypto.SHA512,
	crypto.SHA3_256, crypto.SHA3_512, crypto.BLAKE2b_256, crypto.BLAKE2b_512}

func init() {
	add(spec[info.Feature]{
		name: "info.Feature", byValue: true,
		gen:        genFeature,
		eq:         func(a, b info.Feature) string { var d differ; d.str("var", a.Var, b.Var); return d.String() },
		nontrivial: func(v info.Feature) bool { return hasSpecial(v.Var) },
	})
	add(spec[info.Identity]{
		name: "info.Identity", byValue: true,
		gen: genIdentity,
		eq:  func(a, b info.Identity) string { return eqIdentity("", a, b) },
	})
	add(spec[items.Item]{
		name: "items.Item", byValue: true,
		gen: func(t *rapid.T) items.Item {
			return items.Item{JID: genJIDz().Draw(t, "jid"), Name: genOpt().Draw(t, "name"), Node: genOpt().Draw(t, "node")}
		},
		eq: func(a, b items.Item) string {
			var d differ
			d.jid("jid", a.JID, b.JID)
			d.str("name", a.Name, b.Name)
			d.str("node", a.Node, b.Node)
			return d.String()
		},
	})
	add(spec[disco.InfoQuery]{
		name: "disco.InfoQuery", byValue: true,
		gen: func(t *rapid.T) disco.InfoQuery { return disco.InfoQuery{Node: genOpt().Draw(t, "node")} },
		eq: func(a, b disco.InfoQuery) string {
			var d differ
			d.str("node", a.Node, b.Node)
			return d.String()
		},
		nontrivial: func(v disco.InfoQuery) bool { return hasSpecial(v.Node) },
	})
	add(spec[disco.ItemsQuery]{
		name: "disco.ItemsQuery", byValue: true,
		gen: func(t *rapid.T) disco.ItemsQuery { return disco.ItemsQuery{Node: genOpt().Draw(t, "node")} },
		eq: func(a, b disco.ItemsQuery) string {
			var d differ
			d.str("node", a.Node, b.Node)
			return d.String()
		},
		nontrivial: func(v disco.ItemsQuery) bool { return hasSpecial(v.Node) },
	})
	add(spec[disco.Info]{
		name: "disco.Info", byValue: true,
		gen: func(t *rapid.T) disco.Info {
			var i disco.Info
			i.Node = genOpt().Draw(t, "node")
			for n := listLen(t, "nident", 3); n > 0; n-- {
				i.Identity = append(i.Identity, genIdentity(t))
			}
			for n := listLen(t, "nfeat", 4); n > 0; n-- {
				i.Features = append(i.Features, genFeature(t))
			}
			for n := rapid.SampledFrom([]int{0, 0, 1, 1, 2}).Draw(t, "nforms"); n > 0; n-- {
				i.Form = append(i.Form, *genForm().Draw(t, "form"))
			}
			return i
		},
		eq: func(a, b disco.Info) string {
			var d differ
			d.str("node", a.Node, b.Node)
			if len(a.Identity) != len(b.Identity) {
				d.add(fmt.Sprintf("identities: %d became %d", len(a.Identity), len(b.Identity)))
			} else {
				for i := range a.Identity {
					d.add(eqIdentity(fmt.Sprintf("identity[%d].", i), a.Identity[i], b.Identity[i]))
				}
			}
			if len(a.Features) != len(b.Features) {
				d.add(fmt.Sprintf("features: %d became %d", len(a.Features), len(b.Features)))
			} else {
				for i := range a.Features {
					d.str(fmt.Sprintf("feature[%d].var", i), a.Features[i].Var, b.Features[i].Var)
				}
			}
			if len(a.Form) != len(b.Form) {
				d.add(fmt.Sprintf("forms: %d became %d", len(a.Form), len(b.Form)))
			} else {
				for i := range a.Form {
					if s := eqForm(&a.Form[i], &b.Form[i]); s != "" {
						d.add(fmt.Sprintf("form[%d]: %s", i, s))
					}
				}
			}
			return d.String()
		},
		nontrivial: func(v disco.Info) bool {
			sp := hasSpecial(v.Node)
			for _, i := range v.Identity {
				sp = sp || hasSpecial(i.Name) || hasSpecial(i.Category) || hasSpecial(i.Type)
			}
			for _, f := range v.Features {
				sp = sp || hasSpecial(f.Var)
			}
			for i := range v.Form {
				sp = sp || formNontrivial(&v.Form[i])
			}
			return sp && len(v.Identity)+len(v.Features)+len(v.Form) > 0
		},
		classes: func(v disco.Info) []string {
			var cl []string
			if len(v.Form) > 0 {
				cl = append(cl, "with-forms")
			}
			if len(v.Identity) > 1 {
				cl = append(cl, "many-identities")
			}
			return cl
		},
		seeds: []string{
			`<query xmlns="http://jabber.org/protocol/disco#info" node="n"><identity category="c" type="t" name="n" xml:lang="en"/><feature var="v"/><x xmlns="jabber:x:data" type="result"><field var="FORM_TYPE" type="hidden"><value>urn:x</value></field></x></query>`,
		},
	})
	add(spec[disco.Caps]{
		name: "disco.Caps", byValue: true,
		gen: func(t *rapid.T) disco.Caps {
			return disco.Caps{
				Hash: rapid.SampledFrom(hashes).Draw(t, "hash"),
				Node: genText().Draw(t, "node"),
				Ver:  genText().Draw(t, "ver"),
			}
		},
		eq: func(a, b disco.Caps) string {
			var d differ
			d.val("hash", a.Hash, b.Hash)
			d.str("node", a.Node, b.Node)
			d.str("ver", a.Ver, b.Ver)
			return d.String()
		},
		seeds: []string{`<c xmlns="http://jabber.org/protocol/caps" hash="sha-1" node="n" ver="v"/>`, `<c xmlns="http://jabber.org/protocol/caps" hash="md5"/>`},
	})
	_ = form.NS
}
