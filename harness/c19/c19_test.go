// C19 — Extension payloads encode consistently, safely and round-trip.
//
// This file holds the machinery: the registry of payload types, the canonical
// (namespace resolved, attribute-order insensitive) XML form used to compare
// encodings, the generic encode/decode property and the generic "unmarshal
// never panics" property.  The per-type entries live in the reg_*_test.go
// files; the data-form builder/Set/Get/Submit model in form_api_test.go.
package c19

import (
	"bytes"
	"encoding/xml"
	"errors"
	"fmt"
	"io"
	"reflect"
	"sort"
	"strings"
	"testing"
	"time"
	"unicode/utf8"

	"pgregory.net/rapid"

	"mellium.im/xmlstream"
	"mellium.im/xmpp/verifharness/internal/ev"
)

func TestMain(m *testing.M) {
	// xtime parses zone offsets with time.Parse, which substitutes time.Local
	// when the offset matches; pin Local so the check does not depend on the
	// machine's zone database.
	time.Local = time.UTC
	// a stable order, whatever the file layout (the fuzz corpus indexes it)
	sort.Slice(registry, func(i, j int) bool { return registry[i].name < registry[j].name })
	ev.Main(m, "C19")
}

type fataler interface {
	Helper()
	Fatalf(string, ...any)
}

// ------------------------------------------------------------ canonical XML

type cnode struct {
	space, local string
	attrs        []string // rendered `{space}local="value"`, sorted
	kids         []*cnode // element children and text nodes in order
	text         string   // for text nodes (local == "")
	isText       bool
}

func (n *cnode) render(sb *strings.Builder, sortKids bool) {
	if n.isText {
		fmt.Fprintf(sb, "%q", n.text)
		return
	}
	fmt.Fprintf(sb, "<{%s}%s", n.space, n.local)
	for _, a := range n.attrs {
		sb.WriteByte(' ')
		sb.WriteString(a)
	}
	sb.WriteByte('>')
	if sortKids {
		parts := make([]string, len(n.kids))
		for i, k := range n.kids {
			var b strings.Builder
			k.render(&b, true)
			parts[i] = b.String()
		}
		sort.Strings(parts)
		for _, p := range parts {
			sb.WriteString(p)
		}
	} else {
		for _, k := range n.kids {
			k.render(sb, false)
		}
	}
	sb.WriteString("</>")
}

// canon is a parsed document: zero or more top level elements.
type canon struct {
	roots []*cnode
}

func (c canon) String() string { return c.str(false) }

func (c canon) str(sortKids bool) string {
	var sb strings.Builder
	for _, r := range c.roots {
		r.render(&sb, sortKids)
	}
	return sb.String()
}

func isXMLNSAttr(n xml.Name) bool {
	return n.Space == "xmlns" || (n.Space == "" && n.Local == "xmlns")
}

func renderAttrs(attrs []xml.Attr) ([]string, error) {
	var out []string
	seen := map[xml.Name]bool{}
	for _, a := range attrs {
		if isXMLNSAttr(a.Name) {
			continue
		}
		if seen[a.Name] {
			return nil, fmt.Errorf("duplicate attribute {%s}%s", a.Name.Space, a.Name.Local)
		}
		seen[a.Name] = true
		out = append(out, fmt.Sprintf("{%s}%s=%q", a.Name.Space, a.Name.Local, a.Value))
	}
	sort.Strings(out)
	return out, nil
}

type canonBuilder struct {
	roots []*cnode
	stack []*cnode
}

func (b *canonBuilder) start(space, local string, attrs []xml.Attr) error {
	as, err := renderAttrs(attrs)
	if err != nil {
		return err
	}
	if local == "" {
		return errors.New("element with empty local name")
	}
	n := &cnode{space: space, local: local, attrs: as}
	if len(b.stack) == 0 {
		b.roots = append(b.roots, n)
	} else {
		p := b.stack[len(b.stack)-1]
		p.kids = append(p.kids, n)
	}
	b.stack = append(b.stack, n)
	return nil
}

func (b *canonBuilder) text(s string) error {
	if s == "" {
		return nil
	}
	if len(b.stack) == 0 {
		if strings.TrimSpace(s) != "" {
			return fmt.Errorf("character data %q outside of any element", s)
		}
		return nil
	}
	p := b.stack[len(b.stack)-1]
	if l := len(p.kids); l > 0 && p.kids[l-1].isText {
		p.kids[l-1].text += s
		return nil
	}
	p.kids = append(p.kids, &cnode{isText: true, text: s})
	return nil
}

func (b *canonBuilder) end() error {
	if len(b.stack) == 0 {
		return errors.New("end element without start element")
	}
	b.stack = b.stack[:len(b.stack)-1]
	return nil
}

// canonFromBytes is the independent well-formedness oracle: a strict
// encoding/xml pass over the serialized bytes.
func canonFromBytes(data []byte) (canon, error) {
	if !utf8.Valid(data) {
		return canon{}, errors.New("output is not valid UTF-8")
	}
	d := xml.NewDecoder(bytes.NewReader(data))
	var b canonBuilder
	for {
		tok, err := d.Token()
		if err == io.EOF {
			break
		}
		if err != nil {
			return canon{}, err
		}
		switch t := tok.(type) {
		case xml.StartElement:
			if err := b.start(t.Name.Space, t.Name.Local, t.Attr); err != nil {
				return canon{}, err
			}
		case xml.EndElement:
			if err := b.end(); err != nil {
				return canon{}, err
			}
		case xml.CharData:
			if err := b.text(string(t)); err != nil {
				return canon{}, err
			}
		}
	}
	if len(b.stack) != 0 {
		return canon{}, errors.New("unclosed element at end of output")
	}
	return canon{roots: b.roots}, nil
}

// canonFromTokens renders what a TokenReader yields directly (no encoder in
// between).  An element without a namespace inherits the namespace of its
// parent, which is what encoding/xml makes of it on the wire and what every
// decoder in the library relies on.
func canonFromTokens(r xml.TokenReader) (canon, error) {
	var b canonBuilder
	var names []xml.Name // resolved names of open elements
	if r == nil {
		return canon{}, nil
	}
	for n := 0; ; n++ {
		if n > 1<<20 {
			return canon{}, errors.New("token reader does not terminate (1Mi tokens)")
		}
		tok, err := r.Token()
		if tok != nil {
			switch t := tok.(type) {
			case xml.StartElement:
				space := t.Name.Space
				if space == "" && len(names) > 0 {
					space = names[len(names)-1].Space
				}
				names = append(names, xml.Name{Space: space, Local: t.Name.Local})
				if err := b.start(space, t.Name.Local, t.Attr); err != nil {
					return canon{}, err
				}
			case xml.EndElement:
				if len(names) == 0 {
					return canon{}, fmt.Errorf("end element %v without start", t.Name)
				}
				open := names[len(names)-1]
				if t.Name.Local != open.Local || (t.Name.Space != "" && t.Name.Space != open.Space) {
					return canon{}, fmt.Errorf("end element %v closes %v", t.Name, open)
				}
				names = names[:len(names)-1]
				if err := b.end(); err != nil {
					return canon{}, err
				}
			case xml.CharData:
				if err := b.text(string(t)); err != nil {
					return canon{}, err
				}
			case xml.Comment, xml.ProcInst, xml.Directive:
			default:
				return canon{}, fmt.Errorf("unexpected token type %T", tok)
			}
		}
		if err == io.EOF {
			break
		}
		if err != nil {
			return canon{}, err
		}
		if tok == nil {
			return canon{}, errors.New("token reader returned nil, nil")
		}
	}
	if len(names) != 0 {
		return canon{}, fmt.Errorf("token stream ends with %d unclosed elements", len(names))
	}
	return canon{roots: b.roots}, nil
}

func encodeTokens(r xml.TokenReader) ([]byte, error) {
	var buf bytes.Buffer
	e := xml.NewEncoder(&buf)
	if r != nil {
		if _, err := xmlstream.Copy(e, r); err != nil {
			return buf.Bytes(), err
		}
	}
	if err := e.Flush(); err != nil {
		return buf.Bytes(), err
	}
	return buf.Bytes(), nil
}

// ------------------------------------------------------------------ registry

type tokenReaderer interface{ TokenReader() xml.TokenReader }
type xmlWriter interface {
	WriteXML(xmlstream.TokenWriter) (int, error)
}

type output struct {
	path string
	data []byte
	c    canon
}

// spec describes one payload type T.
type spec[T any] struct {
	name string
	gen  func(t *rapid.T) T
	// eq reports a difference between the original and a decoded value under
	// the type's documented equivalence ("" = equivalent).  nil: the type is
	// encode-only (no decoder, or the repository's own tests flag it one-way).
	eq func(orig, got T) string
	// oneWay names a reason when this particular value is not expected to
	// round trip (the repository's own tests mark such values NoUnmarshal).
	oneWay func(v T) string
	// nontrivial overrides the default rule (>= 1 text field with a special
	// character and >= 1 other field set; for text-free types: non-zero).
	nontrivial func(v T) bool
	classes    func(v T) []string
	// emptyOK: the value legitimately encodes to nothing.
	emptyOK func(v T) bool
	// byValue: xml.Marshal is also offered the bare value (only sensible when
	// the marshalling methods have value receivers).
	byValue bool
	// noMarshal: xml.Marshal is not an encoder of this type.
	noMarshal bool
	// sortKids: child order carries no meaning (map-backed collections).
	sortKids bool
	// noFixedPoint: do not demand encode(decode(encode(v))) == encode(v).
	noFixedPoint bool
	// extra paths (e.g. MarshalDirect/MarshalMediated).
	extra func(v *T) map[string]func() ([]byte, error)
	// post runs type specific checks on the decoded value.
	post func(orig, got T) string
	// decode replaces xml.Unmarshal (function style APIs such as Unwrap).
	decode func(data []byte) (T, error)
	// seeds are additional documents of the type's grammar for the unmarshal
	// property (on top of its own encodings).
	seeds []string
}

type entry struct {
	name      string
	draw      func(t *rapid.T) any // returns *T
	render    func(v any) string
	classes   func(v any) (nontrivial bool, classes []string)
	check     func(t fataler, v any)
	unmarshal func(data []byte) (val any, err error, panicked string)
	reencode  func(val any) (panicked string)
	encodeOne func(v any) []byte // best effort, for seeds of the unmarshal property
	seeds     []string
	decodable bool
}

var registry []*entry

func byName(name string) *entry {
	for _, e := range registry {
		if e.name == name {
			return e
		}
	}
	return nil
}

func add[T any](s spec[T]) {
	if byName(s.name) != nil {
		panic("duplicate registry entry " + s.name)
	}
	e := &entry{name: s.name, seeds: s.seeds, decodable: s.eq != nil}
	// holder returns the value whose method set carries the encoders: the
	// pointer to the generated value, or the value itself when T already is
	// a pointer type.
	holder := func(p *T) any {
		if reflect.TypeOf(p).Elem().Kind() == reflect.Ptr {
			return any(*p)
		}
		return any(p)
	}
	e.draw = func(t *rapid.T) any {
		v := s.gen(t)
		return &v
	}
	e.render = func(v any) string { return s.name + " " + render(reflect.ValueOf(v).Elem()) }
	e.classes = func(v any) (bool, []string) {
		p := v.(*T)
		var nt bool
		if s.nontrivial != nil {
			nt = s.nontrivial(*p)
		} else {
			nt = defaultNontrivial(reflect.ValueOf(p).Elem())
		}
		cl := []string{"type:" + s.name}
		if nt {
			cl = append(cl, "nontrivial:"+s.name)
		}
		if s.classes != nil {
			for _, c := range s.classes(*p) {
				cl = append(cl, s.name+":"+c)
			}
		}
		if s.oneWay != nil {
			if why := s.oneWay(*p); why != "" {
				cl = append(cl, s.name+":one-way:"+why)
			}
		}
		return nt, cl
	}
	paths := func(p *T) (names []string, fns []func() ([]byte, error)) {
		addp := func(n string, f func() ([]byte, error)) { names = append(names, n); fns = append(fns, f) }
		if !s.noMarshal {
			addp("xml.Marshal(&v)", func() ([]byte, error) { return xml.Marshal(p) })
			if s.byValue {
				addp("xml.Marshal(v)", func() ([]byte, error) { return xml.Marshal(*p) })
			}
		}
		if tr, ok := holder(p).(tokenReaderer); ok {
			addp("TokenReader", func() ([]byte, error) { return encodeTokens(tr.TokenReader()) })
		}
		if w, ok := holder(p).(xmlWriter); ok {
			addp("WriteXML", func() ([]byte, error) {
				var buf bytes.Buffer
				e := xml.NewEncoder(&buf)
				if _, err := w.WriteXML(e); err != nil {
					return buf.Bytes(), err
				}
				err := e.Flush()
				return buf.Bytes(), err
			})
		}
		if s.extra != nil {
			ex := s.extra(p)
			var ks []string
			for k := range ex {
				ks = append(ks, k)
			}
			sort.Strings(ks)
			for _, k := range ks {
				addp(k, ex[k])
			}
		}
		return
	}
	decode := func(data []byte) (T, error, string) {
		var out T
		var err error
		p := ev.Guard(func() {
			if s.decode != nil {
				out, err = s.decode(data)
			} else {
				err = xml.Unmarshal(data, &out)
			}
		})
		return out, err, p
	}
	e.unmarshal = func(data []byte) (any, error, string) {
		out, err, p := decode(data)
		return &out, err, p
	}
	e.reencode = func(val any) string {
		p := val.(*T)
		names, fns := paths(p)
		for i, f := range fns {
			var data []byte
			var err error
			if pn := ev.Guard(func() { data, err = f() }); pn != "" {
				return names[i] + ": " + pn
			}
			_, _ = data, err
		}
		return ""
	}
	e.encodeOne = func(v any) []byte {
		_, fns := paths(v.(*T))
		var data []byte
		if len(fns) == 0 {
			return nil
		}
		ev.Guard(func() { data, _ = fns[0]() })
		return data
	}
	var checkValue func(t fataler, p *T, desc string, again bool)
	checkValue = func(t fataler, p *T, desc string, again bool) {
		t.Helper()
		fail := func(format string, args ...any) {
			t.Helper()
			ev.Failf(t, "type %s\nvalue: %s\n%s", s.name, desc, fmt.Sprintf(format, args...))
		}
		cs := func(c canon) string { return c.str(s.sortKids) }
		names, fns := paths(p)
		empty := s.emptyOK != nil && s.emptyOK(*p)
		var outs []output
		for i, f := range fns {
			var data []byte
			var err error
			if pn := ev.Guard(func() { data, err = f() }); pn != "" {
				fail("%s panicked: %s", names[i], pn)
			}
			if err != nil {
				fail("%s returned error %v (partial output %q)", names[i], err, data)
			}
			c, err := canonFromBytes(data)
			if err != nil {
				fail("%s wrote XML that is not well-formed: %v\noutput: %q", names[i], err, data)
			}
			want := 1
			if empty {
				want = 0
			}
			if len(c.roots) != want {
				fail("%s wrote %d top level elements, want %d\noutput: %q", names[i], len(c.roots), want, data)
			}
			outs = append(outs, output{names[i], data, c})
		}
		if len(outs) == 0 {
			return
		}
		// encoding must not change the value: every path, run once more after
		// all paths have run, writes the same document as the first time
		for i, f := range fns {
			var data []byte
			var err error
			if pn := ev.Guard(func() { data, err = f() }); pn != "" {
				fail("%s panicked when the value was encoded a second time: %s", names[i], pn)
			}
			c, cerr := canonFromBytes(data)
			if err != nil || cerr != nil || cs(c) != cs(outs[i].c) {
				fail("encoding is not repeatable (an encoder modified the value): %s wrote\n first: %q\n again: %q (err %v)", names[i], outs[i].data, data, err)
			}
		}
		// the token stream itself, without an encoder in between, must be the
		// same document as its serialization
		if tr, ok := holder(p).(tokenReaderer); ok {
			var c canon
			var err error
			if pn := ev.Guard(func() { c, err = canonFromTokens(tr.TokenReader()) }); pn != "" {
				fail("reading TokenReader panicked: %s", pn)
			}
			if err != nil {
				fail("TokenReader yields an ill-formed token stream: %v", err)
			}
			for _, o := range outs {
				if o.path == "TokenReader" && cs(c) != cs(o.c) {
					fail("TokenReader's tokens differ from their own serialization:\ntokens: %s\nserialized: %q", cs(c), o.data)
				}
			}
		}
		pathsDiffer := false
		for _, o := range outs[1:] {
			if cs(o.c) != cs(outs[0].c) {
				pathsDiffer = true
				if s.eq == nil || empty {
					// no decoder to compare through: the documents must agree
					fail("encodings differ:\n%s: %q\n%s: %q", outs[0].path, outs[0].data, o.path, o.data)
				}
			}
		}
		if pathsDiffer {
			ev.Class(s.name + ":paths-differ-textually")
		}
		if s.eq == nil || empty {
			return
		}
		// decode every distinct serialization
		why := ""
		if s.oneWay != nil {
			why = s.oneWay(*p)
		}
		seen := map[string]bool{}
		var first *T
		var firstOut output
		for _, o := range outs {
			if seen[string(o.data)] {
				continue
			}
			seen[string(o.data)] = true
			got, err, pn := decode(o.data)
			if pn != "" {
				fail("decoding the type's own encoding panicked\ninput (%s): %q\n%s", o.path, o.data, pn)
			}
			if err != nil {
				if why != "" && !pathsDiffer {
					continue
				}
				fail("the decoder rejects the type's own encoding: %v\ninput (%s): %q", err, o.path, o.data)
			}
			if why == "" {
				if d := s.eq(*p, got); d != "" {
					fail("round trip changed the value: %s\nencoded (%s): %q\ndecoded: %s", d, o.path, o.data, render(reflect.ValueOf(&got).Elem()))
				}
				if s.post != nil {
					if d := s.post(*p, got); d != "" {
						fail("%s\nencoded (%s): %q", d, o.path, o.data)
					}
				}
			}
			if first == nil {
				g := got
				first, firstOut = &g, o
			} else if d := s.eq(*first, got); d != "" {
				fail("the encodings decode to different values: %s\n%s: %q\n%s: %q", d, firstOut.path, firstOut.data, o.path, o.data)
			}
		}
		if first == nil || why != "" || again || s.noFixedPoint {
			return
		}
		// The decoded value is itself a value of the type: it must encode and
		// round trip like any other (one round trip reaches a fixed point).
		checkValue(t, first, desc+"\nafter one round trip: "+render(reflect.ValueOf(first).Elem())+"\n(checking the decoded value again)", true)
	}
	e.check = func(t fataler, v any) {
		t.Helper()
		checkValue(t, v.(*T), e.render(v), false)
	}
	registry = append(registry, e)
}

// --------------------------------------------------------------- rendering

// render prints any value deterministically (maps sorted, unexported fields
// included) for the canonical case string and for failure messages.
func render(v reflect.Value) string {
	var sb strings.Builder
	renderTo(&sb, v, 0)
	return sb.String()
}

func renderTo(sb *strings.Builder, v reflect.Value, depth int) {
	if depth > 12 {
		sb.WriteString("…")
		return
	}
	if !v.IsValid() {
		sb.WriteString("nil")
		return
	}
	if v.CanInterface() {
		switch x := v.Interface().(type) {
		case time.Time:
			sb.WriteString(x.Format(time.RFC3339Nano))
			return
		case fmt.Stringer:
			if strings.HasSuffix(v.Type().String(), "jid.JID") {
				fmt.Fprintf(sb, "jid(%q)", x.String())
				return
			}
			if v.Type().String() == "*url.URL" && !v.IsNil() {
				fmt.Fprintf(sb, "url(%q)", x.String())
				return
			}
		}
	}
	switch v.Kind() {
	case reflect.String:
		fmt.Fprintf(sb, "%q", v.String())
	case reflect.Bool:
		fmt.Fprintf(sb, "%v", v.Bool())
	case reflect.Int, reflect.Int8, reflect.Int16, reflect.Int32, reflect.Int64:
		fmt.Fprintf(sb, "%d", v.Int())
	case reflect.Uint, reflect.Uint8, reflect.Uint16, reflect.Uint32, reflect.Uint64:
		fmt.Fprintf(sb, "%d", v.Uint())
	case reflect.Float32, reflect.Float64:
		fmt.Fprintf(sb, "%g", v.Float())
	case reflect.Ptr, reflect.Interface:
		if v.IsNil() {
			sb.WriteString("nil")
			return
		}
		if v.Kind() == reflect.Ptr {
			sb.WriteByte('&')
		}
		renderTo(sb, v.Elem(), depth+1)
	case reflect.Slice, reflect.Array:
		if v.Kind() == reflect.Slice && v.IsNil() {
			sb.WriteString("nil")
			return
		}
		if v.Type().Elem().Kind() == reflect.Uint8 {
			b := make([]byte, v.Len())
			for i := range b {
				b[i] = byte(v.Index(i).Uint())
			}
			fmt.Fprintf(sb, "bytes(%q)", b)
			return
		}
		sb.WriteByte('[')
		for i := 0; i < v.Len(); i++ {
			if i > 0 {
				sb.WriteString(", ")
			}
			renderTo(sb, v.Index(i), depth+1)
		}
		sb.WriteByte(']')
	case reflect.Map:
		type kv struct{ k, v string }
		var kvs []kv
		it := v.MapRange()
		for it.Next() {
			kvs = append(kvs, kv{render(it.Key()), render(it.Value())})
		}
		sort.Slice(kvs, func(i, j int) bool { return kvs[i].k < kvs[j].k })
		sb.WriteString("map[")
		for i, e := range kvs {
			if i > 0 {
				sb.WriteString(", ")
			}
			sb.WriteString(e.k + ": " + e.v)
		}
		sb.WriteByte(']')
	case reflect.Struct:
		sb.WriteString(v.Type().Name())
		sb.WriteByte('{')
		first := true
		for i := 0; i < v.NumField(); i++ {
			f := v.Field(i)
			if f.IsZero() {
				continue
			}
			if !first {
				sb.WriteString(", ")
			}
			first = false
			sb.WriteString(v.Type().Field(i).Name + ": ")
			renderTo(sb, f, depth+1)
		}
		sb.WriteByte('}')
	case reflect.Func:
		sb.WriteString("func")
	default:
		fmt.Fprintf(sb, "<%s>", v.Kind())
	}
}

func hasSpecial(s string) bool {
	for _, r := range s {
		if r >= 0x80 || strings.ContainsRune("<>&'\"\n\t", r) {
			return true
		}
	}
	return false
}

// defaultNontrivial: the value carries at least one string with an
// XML-special, multi-line or non-ASCII character and at least one further
// non-zero field; types without any string field count when non-zero.
func defaultNontrivial(v reflect.Value) bool {
	var strs, special, set int
	var walk func(v reflect.Value, depth int)
	walk = func(v reflect.Value, depth int) {
		if depth > 10 || !v.IsValid() {
			return
		}
		if v.CanInterface() {
			if x, ok := v.Interface().(fmt.Stringer); ok && strings.HasSuffix(v.Type().String(), "jid.JID") {
				strs++
				if x.String() != "" {
					set++
				}
				if hasSpecial(x.String()) {
					special++
				}
				return
			}
			if _, ok := v.Interface().(time.Time); ok {
				if !v.IsZero() {
					set++
				}
				return
			}
		}
		switch v.Kind() {
		case reflect.String:
			strs++
			if v.Len() > 0 {
				set++
			}
			if hasSpecial(v.String()) {
				special++
			}
		case reflect.Ptr, reflect.Interface:
			if !v.IsNil() {
				set++
				walk(v.Elem(), depth+1)
			}
		case reflect.Slice, reflect.Array:
			if v.Len() > 0 && v.Type().Elem().Kind() == reflect.Uint8 {
				set++
				return
			}
			for i := 0; i < v.Len(); i++ {
				walk(v.Index(i), depth+1)
			}
		case reflect.Map:
			it := v.MapRange()
			for it.Next() {
				walk(it.Key(), depth+1)
				walk(it.Value(), depth+1)
			}
		case reflect.Struct:
			for i := 0; i < v.NumField(); i++ {
				if v.Type().Field(i).Name == "XMLName" {
					continue
				}
				walk(v.Field(i), depth+1)
			}
		default:
			if !v.IsZero() {
				set++
			}
		}
	}
	walk(v, 0)
	if strs == 0 {
		return set > 0
	}
	return special >= 1 && set >= 2
}

// ------------------------------------------------------------- properties

func quickCount(e *entry) (int, int) { return 1200, 12000 }

// TestC19Encode: for every registered type, generated values encode through
// every offered path to well-formed, mutually equivalent XML, and (two-way
// types) decode back to an equivalent value.
func TestC19Encode(t *testing.T) {
	for _, e := range registry {
		e := e
		t.Run(e.name, func(t *testing.T) {
			q, th := quickCount(e)
			nontrivialSeen := 0
			defer func() {
				if nontrivialSeen == 0 && !t.Failed() {
					// starvation is not a violation: report the type as undecided
					ev.Note("INCONCLUSIVE: no non-trivial value of %s was generated", e.name)
					t.Skipf("no non-trivial value of %s was generated", e.name)
				}
			}()
			ev.Check(t, q, th, func(rt *rapid.T) {
				// Generators only assemble values (struct literals, option
				// functions); every library call that computes anything is
				// made, guarded, inside e.check.
				v := e.draw(rt)
				nt, cl := e.classes(v)
				if nt {
					nontrivialSeen++
				}
				ev.Case(nt, e.render(v), cl...)
				e.check(rt, v)
			})
		})
	}
}
