package c19

import (
	"bytes"
	"encoding/xml"
	"fmt"
	"io"
	"strings"
	"testing"

	"pgregory.net/rapid"

	"mellium.im/xmpp/verifharness/internal/ev"
	"mellium.im/xmpp/verifharness/internal/xt"
)

// ------------------------------------------------------------ document trees

type mnode struct {
	name   xml.Name
	attrs  []xml.Attr
	kids   []*mnode
	text   string
	isText bool
}

func parseTree(data []byte) *mnode {
	d := xml.NewDecoder(bytes.NewReader(data))
	root := &mnode{}
	stack := []*mnode{root}
	for {
		tok, err := d.Token()
		if err != nil {
			break
		}
		top := stack[len(stack)-1]
		switch t := tok.(type) {
		case xml.StartElement:
			n := &mnode{name: t.Name}
			for _, a := range t.Attr {
				if !isXMLNSAttr(a.Name) {
					n.attrs = append(n.attrs, a)
				}
			}
			top.kids = append(top.kids, n)
			stack = append(stack, n)
		case xml.EndElement:
			if len(stack) > 1 {
				stack = stack[:len(stack)-1]
			}
		case xml.CharData:
			if len(stack) > 1 {
				top.kids = append(top.kids, &mnode{isText: true, text: string(t)})
			}
		}
	}
	return root
}

func (n *mnode) tokens(out []xml.Token) []xml.Token {
	if n.isText {
		return append(out, xml.CharData(n.text))
	}
	if n.name.Local == "" { // the synthetic root
		for _, k := range n.kids {
			out = k.tokens(out)
		}
		return out
	}
	start := xml.StartElement{Name: n.name, Attr: n.attrs}
	out = append(out, start)
	for _, k := range n.kids {
		out = k.tokens(out)
	}
	return append(out, start.End())
}

func (n *mnode) serialize() []byte {
	var buf bytes.Buffer
	e := xml.NewEncoder(&buf)
	for _, t := range n.tokens(nil) {
		if err := e.EncodeToken(t); err != nil {
			break
		}
	}
	e.Flush()
	return buf.Bytes()
}

func (n *mnode) elements(out []*mnode) []*mnode {
	if !n.isText && n.name.Local != "" {
		out = append(out, n)
	}
	for _, k := range n.kids {
		out = k.elements(out)
	}
	return out
}

func (n *mnode) clone() *mnode {
	c := *n
	c.attrs = append([]xml.Attr(nil), n.attrs...)
	c.kids = nil
	for _, k := range n.kids {
		c.kids = append(c.kids, k.clone())
	}
	return &c
}

var hostileValues = []string{
	"", "0", "1", "-1", "18446744073709551615", "18446744073709551616", "99999999999999999999999999", "9223372036854775807",
	"-9223372036854775808", "1e9", "0x10", " 5 ", "true", "false", "TRUE", "NaN",
	"@", "a@b/c", "a@", "/", "a@b@c", strings.Repeat("a", 1100) + "@example.net",
	"2020-01-01T00:00:00Z", "2020-01-01T00:00:00.123456789+14:00", "not-a-date", "0000-00-00T00:00:00Z", "+25:00", "Z", "-00:00",
	"!!!", "a=", "=", "AA==", "AAAA", "A", "sha-1", "sha-256", "md5", "owner", "moderator", "info",
	"<>&'\"", "\n", "submit", "form", "text-multi", "jid-multi", "boolean", "list-multi", "hidden", "fixed",
	"://bad", "%zz", "http://[::1", strings.Repeat("x", 5000),
}

// mutate applies one random structural or lexical mutation.
func mutate(t *rapid.T, root *mnode) (what string) {
	els := root.elements(nil)
	if len(els) == 0 {
		root.kids = append(root.kids, &mnode{name: xml.Name{Local: "x"}})
		return "add-root"
	}
	el := els[rapid.IntRange(0, len(els)-1).Draw(t, "target")]
	pick := func(label string) string { return rapid.SampledFrom(hostileValues).Draw(t, label) }
	switch op := rapid.IntRange(0, 15).Draw(t, "mutation"); op {
	case 0: // text where an element is expected
		if len(el.kids) > 0 {
			i := rapid.IntRange(0, len(el.kids)-1).Draw(t, "kid")
			el.kids[i] = &mnode{isText: true, text: pick("text")}
			return "kid->text"
		}
		el.kids = []*mnode{{isText: true, text: pick("text")}}
		return "add-text"
	case 1: // element where text is expected
		el.kids = []*mnode{{name: xml.Name{Local: "unexpected"}, kids: []*mnode{{isText: true, text: "x"}}}}
		return "text->element"
	case 2: // text before element children
		el.kids = append([]*mnode{{isText: true, text: pick("text")}}, el.kids...)
		return "leading-text"
	case 3:
		if len(el.attrs) > 0 {
			i := rapid.IntRange(0, len(el.attrs)-1).Draw(t, "attr")
			el.attrs = append(el.attrs[:i:i], el.attrs[i+1:]...)
			return "drop-attr"
		}
		return "noop"
	case 4:
		if len(el.attrs) > 0 {
			a := el.attrs[rapid.IntRange(0, len(el.attrs)-1).Draw(t, "attr")]
			a.Value = pick("dupval")
			el.attrs = append(el.attrs, a)
			return "dup-attr"
		}
		return "noop"
	case 5, 6:
		if len(el.attrs) > 0 {
			i := rapid.IntRange(0, len(el.attrs)-1).Draw(t, "attr")
			el.attrs[i].Value = pick("attrval")
			return "attr-value"
		}
		return "noop"
	case 7:
		for _, k := range el.kids {
			if k.isText {
				k.text = pick("textval")
				return "text-value"
			}
		}
		el.kids = append(el.kids, &mnode{isText: true, text: pick("textval")})
		return "append-text"
	case 8:
		el.name.Local = rapid.SampledFrom([]string{"x", "query", "item", "set", "field", "value", "delay", "text", els[0].name.Local}).Draw(t, "rename")
		return "rename"
	case 9:
		el.name.Space = rapid.SampledFrom([]string{"", "urn:example:other", els[0].name.Space, "jabber:x:data"}).Draw(t, "ns")
		return "namespace"
	case 10: // wrong nesting: wrap the children
		el.kids = []*mnode{{name: xml.Name{Space: el.name.Space, Local: "wrapper"}, kids: el.kids}}
		return "wrap-kids"
	case 11: // wrong nesting: hoist grandchildren
		var kids []*mnode
		for _, k := range el.kids {
			if k.isText {
				kids = append(kids, k)
			} else {
				kids = append(kids, k.kids...)
			}
		}
		el.kids = kids
		return "hoist"
	case 12:
		if len(el.kids) > 0 {
			i := rapid.IntRange(0, len(el.kids)-1).Draw(t, "kid")
			n := rapid.IntRange(1, 3).Draw(t, "copies")
			for ; n > 0; n-- {
				el.kids = append(el.kids, el.kids[i].clone())
			}
			return "dup-kid"
		}
		return "noop"
	case 13:
		if len(el.kids) > 0 {
			i := rapid.IntRange(0, len(el.kids)-1).Draw(t, "kid")
			el.kids = append(el.kids[:i:i], el.kids[i+1:]...)
			return "drop-kid"
		}
		return "noop"
	case 14:
		if len(el.kids) > 1 {
			i := rapid.IntRange(0, len(el.kids)-1).Draw(t, "a")
			j := rapid.IntRange(0, len(el.kids)-1).Draw(t, "b")
			el.kids[i], el.kids[j] = el.kids[j], el.kids[i]
			return "swap-kids"
		}
		return "noop"
	default: // a copy of the root inside the element
		el.kids = append(el.kids, els[0].clone())
		return "nest-root"
	}
}

func genDocument(t *rapid.T, e *entry) (doc []byte, classes []string) {
	var base []byte
	src := rapid.IntRange(0, 9).Draw(t, "source")
	switch {
	case src == 0: // a document of some other type's grammar
		o := registry[rapid.IntRange(0, len(registry)-1).Draw(t, "other")]
		base = o.encodeOne(o.draw(t))
		classes = append(classes, "foreign-grammar")
	case src <= 3 && len(e.seeds) > 0:
		base = []byte(rapid.SampledFrom(e.seeds).Draw(t, "seed"))
		classes = append(classes, "seed")
	default:
		base = e.encodeOne(e.draw(t))
		classes = append(classes, "own-encoding")
	}
	root := parseTree(base)
	n := rapid.SampledFrom([]int{0, 1, 1, 1, 2, 2, 3, 4}).Draw(t, "nmut")
	for i := 0; i < n; i++ {
		classes = append(classes, "mut:"+mutate(t, root))
	}
	if n == 0 {
		doc = base
		classes = append(classes, "unmutated")
	} else {
		doc = root.serialize()
	}
	switch rapid.IntRange(0, 11).Draw(t, "lexical") {
	case 3, 4:
		// the same document with its character data in other spellings (CDATA
		// sections, character references, several runs per text)
		doc = xt.Respell(doc, uint32(rapid.IntRange(0, 1000).Draw(t, "respell")))
		classes = append(classes, "text-respelled")
	case 0:
		if len(doc) > 0 {
			doc = doc[:rapid.IntRange(0, len(doc)-1).Draw(t, "cut")]
			classes = append(classes, "truncated")
		}
	case 1:
		doc = append([]byte("<?xml version=\"1.0\"?><!-- c -->\n"), doc...)
		classes = append(classes, "prolog")
	case 2:
		doc = bytes.Replace(doc, []byte(">"), []byte("><!-- c --><![CDATA[x]]><?pi?>"), 1)
		classes = append(classes, "comment-cdata-pi")
	}
	return doc, classes
}

// checkUnmarshal is shared by the rapid property, the regressions and the
// native fuzz target.
func checkUnmarshal(t fataler, e *entry, doc []byte) {
	t.Helper()
	val, err, pn := e.unmarshal(doc)
	if pn != "" {
		ev.Failf(t, "xml.Unmarshal into %s panicked\ndocument: %q\n%s", e.name, doc, pn)
	}
	if err != nil {
		return
	}
	// what was decoded is a value of the type: writing it out must not panic
	if pn := e.reencode(val); pn != "" {
		ev.Failf(t, "%s decoded from %q without error, but encoding the decoded value panicked\n%s", e.name, doc, pn)
	}
}

// TestC19Unmarshal: documents from each type's own grammar, mutated, never
// make its unmarshaller panic.
func TestC19Unmarshal(t *testing.T) {
	for _, e := range registry {
		e := e
		if !e.decodable {
			continue
		}
		t.Run(e.name, func(t *testing.T) {
			ev.Check(t, 800, 8000, func(rt *rapid.T) {
				doc, classes := genDocument(rt, e)
				mutated := false
				for _, c := range classes {
					if strings.HasPrefix(c, "mut:") && c != "mut:noop" || c == "truncated" || c == "seed" {
						mutated = true
					}
				}
				classes = append(classes, "unmarshal:"+e.name)
				ev.Case(mutated, "unmarshal "+e.name+" "+string(doc), classes...)
				checkUnmarshal(rt, e, doc)
			})
		})
	}
}

// FuzzC19Unmarshal: the first byte selects the type, the rest is the document.
func FuzzC19Unmarshal(f *testing.F) {
	var dec []*entry
	for _, e := range registry {
		if e.decodable {
			dec = append(dec, e)
		}
	}
	for i, e := range dec {
		for _, s := range e.seeds {
			f.Add(append([]byte{byte(i)}, s...))
		}
		g := rapid.Custom(func(t *rapid.T) []byte { return e.encodeOne(e.draw(t)) })
		for k := 0; k < 3; k++ {
			f.Add(append([]byte{byte(i)}, g.Example(k)...))
		}
	}
	begun := false
	f.Fuzz(func(t *testing.T, data []byte) {
		if !begun { // once: attributes violations to this target, not to the test that ran before
			begun = true
			ev.Begin(t)
		}
		if len(data) == 0 {
			return
		}
		if len(data) > 1<<16 {
			data = data[:1<<16]
		}
		e := dec[int(data[0])%len(dec)]
		checkUnmarshal(t, e, data[1:])
	})
}

var _ = io.EOF
var _ = fmt.Sprint
