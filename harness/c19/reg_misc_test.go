package c19

import (
	"encoding/xml"
	"fmt"
	"math"
	"net/http"
	"net/url"
	"sort"
	"time"

	"pgregory.net/rapid"

	"mellium.im/xmlstream"
	"mellium.im/xmpp/bin"
	"mellium.im/xmpp/commands"
	"mellium.im/xmpp/crypto"
	"mellium.im/xmpp/file"
	"mellium.im/xmpp/history"
	"mellium.im/xmpp/internal/saslerr"
	"mellium.im/xmpp/muc"
	"mellium.im/xmpp/oob"
	"mellium.im/xmpp/ping"
	"mellium.im/xmpp/pubsub"
	"mellium.im/xmpp/styling"
	"mellium.im/xmpp/upload"
	"mellium.im/xmpp/version"
)

// ---------------------------------------------------------------- muc

var (
	directName   = xml.Name{Space: muc.NSConf, Local: "x"}
	mediatedName = xml.Name{Space: muc.NSUser, Local: "x"}
)

func genInvitation(t *rapid.T) muc.Invitation {
	return muc.Invitation{
		XMLName:  rapid.SampledFrom([]xml.Name{{}, directName, mediatedName}).Draw(t, "xmlname"),
		Continue: rapid.Bool().Draw(t, "continue"),
		JID:      genJIDz().Draw(t, "jid"),
		Password: genOpt().Draw(t, "password"),
		Reason:   genOpt().Draw(t, "reason"),
		Thread:   genOpt().Draw(t, "thread"),
	}
}

func eqInvitation(direct bool, a, b muc.Invitation) string {
	var d differ
	d.val("direct", direct, b.XMLName == directName)
	if !direct {
		d.val("mediated name", mediatedName, b.XMLName)
	}
	d.val("continue", a.Continue, b.Continue)
	d.jid("jid", a.JID, b.JID)
	d.str("password", a.Password, b.Password)
	d.str("reason", a.Reason, b.Reason)
	if a.Continue { // the thread only qualifies a continuation
		d.str("thread", a.Thread, b.Thread)
	}
	return d.String()
}

// inviteVia calls MarshalDirect / MarshalMediated explicitly.
type inviteVia struct {
	Direct bool
	Inv    muc.Invitation
}

func (i inviteVia) TokenReader() xml.TokenReader {
	if i.Direct {
		return i.Inv.MarshalDirect()
	}
	return i.Inv.MarshalMediated()
}

// ---------------------------------------------------------------- pubsub

// pubsubCond: pubsub.Condition only has a decoder; the encoder is the
// harness' own rendering of the XEP-0060 error grammar.
type pubsubCond struct{ C pubsub.Condition }

func (c pubsubCond) TokenReader() xml.TokenReader {
	return xmlstream.Wrap(nil, xml.StartElement{Name: xml.Name{Space: pubsub.NSErrors, Local: c.C.String()}})
}

// ---------------------------------------------------------------- upload

var urlPool []*url.URL

func init() {
	for _, s := range []string{
		"https://upload.example.net/file.ogg",
		"https://example.net/a%20b?x=1&y=%3C2%3E",
		"http://[::1]:8080/p?q='x'&r=\"y\"",
		"https://example.net/日本/ü",
		"/relative/path",
		"https://u:p@example.net/#frag",
		"https://example.net/?a=1&amp;b=2",
	} {
		u, err := url.Parse(s)
		if err != nil {
			continue
		}
		u2, err := url.Parse(u.String())
		if err != nil || u2.String() != u.String() {
			continue
		}
		urlPool = append(urlPool, u)
	}
	if len(urlPool) < 5 {
		panic("url pool too small")
	}
}

func genURL(t *rapid.T, label string) *url.URL {
	if rapid.IntRange(0, 3).Draw(t, label+"Nil") == 0 {
		return nil
	}
	u := *urlPool[rapid.IntRange(0, len(urlPool)-1).Draw(t, label)]
	return &u
}

func urlString(u *url.URL) string {
	if u == nil {
		return ""
	}
	return u.String()
}

func allowedHeaders(h http.Header) map[string][]string {
	out := map[string][]string{}
	for k, vs := range h {
		c := http.CanonicalHeaderKey(k)
		if c == "Authorization" || c == "Cookie" || c == "Expires" {
			out[c] = append(out[c], vs...)
		}
	}
	for k := range out {
		sort.Strings(out[k])
	}
	return out
}

// ---------------------------------------------------------------- history

func genQuery(t *rapid.T) history.Query {
	q := history.Query{
		ID:       genOpt().Draw(t, "queryid"),
		With:     genJIDz().Draw(t, "with"),
		Start:    genTimez().Draw(t, "start"),
		End:      genTimez().Draw(t, "end"),
		BeforeID: genOpt().Draw(t, "beforeID"),
		AfterID:  genOpt().Draw(t, "afterID"),
		Limit:    genU64().Draw(t, "limit"),
		Last:     rapid.Bool().Draw(t, "last"),
		PageID:   genOpt().Draw(t, "pageID"),
		Reverse:  rapid.Bool().Draw(t, "reverse"),
	}
	for n := rapid.SampledFrom([]int{0, 0, 1, 3}).Draw(t, "nids"); n > 0; n-- {
		q.IDs = append(q.IDs, genTextNE().Draw(t, "id"))
	}
	return q
}

// ---------------------------------------------------------------- bin

var maxAges = []time.Duration{0, 0, -time.Second, time.Nanosecond, 400 * time.Millisecond, 500 * time.Millisecond,
	time.Second, 1500 * time.Millisecond, 2500 * time.Millisecond, 86400 * time.Second, 24 * 365 * 100 * time.Hour}

func init() {
	// ---- history
	add(spec[history.Query]{
		name: "history.Query",
		gen:  genQuery,
		eq: func(a, b history.Query) string {
			var d differ
			d.str("queryid", a.ID, b.ID)
			d.jid("with", a.With, b.With)
			d.instant("start", a.Start, b.Start)
			d.instant("end", a.End, b.End)
			d.str("before-id", a.BeforeID, b.BeforeID)
			d.str("after-id", a.AfterID, b.AfterID)
			d.strs("ids", a.IDs, b.IDs)
			d.val("limit", a.Limit, b.Limit)
			d.val("last", a.Last, b.Last)
			d.str("page id", a.PageID, b.PageID)
			d.val("reverse", a.Reverse, b.Reverse)
			return d.String()
		},
		classes: func(v history.Query) []string {
			cl := subSecond(v.Start, v.End)
			if v.PageID != "" {
				cl = append(cl, "with-page-id")
			}
			return cl
		},
		seeds: []string{
			`<query xmlns="urn:xmpp:mam:2" queryid="q"/>`,
			`<query xmlns="urn:xmpp:mam:2"><x xmlns="jabber:x:data" type="submit"><field var="start"><value>yesterday</value></field></x></query>`,
			`<query xmlns="urn:xmpp:mam:2" queryid="q"><x xmlns="jabber:x:data" type="submit"><field var="FORM_TYPE" type="hidden"><value>urn:xmpp:mam:2</value></field><field var="with"><value>a@b</value></field><field var="ids" type="list-multi"><value>1</value></field></x><set xmlns="http://jabber.org/protocol/rsm"><max>10</max><before>x</before></set><flip-page/></query>`,
		},
	})
	add(spec[history.Result]{
		name: "history.Result",
		gen: func(t *rapid.T) history.Result {
			return history.Result{Complete: rapid.Bool().Draw(t, "complete"), Unstable: rapid.Bool().Draw(t, "unstable"), Set: genSet(t)}
		},
		eq: func(a, b history.Result) string {
			var d differ
			d.val("complete", a.Complete, b.Complete)
			d.val("unstable", a.Unstable, b.Unstable)
			d.add(eqSet("set.", a.Set, b.Set))
			return d.String()
		},
		seeds: []string{
			`<fin xmlns="urn:xmpp:mam:2" complete="true" stable="false">text<set xmlns="http://jabber.org/protocol/rsm"><first index="0">a</first><last>b</last><count>1</count></set></fin>`,
			`<fin xmlns="urn:xmpp:mam:2"/>`,
		},
	})

	// ---- muc
	add(spec[muc.Item]{
		name: "muc.Item", byValue: true,
		gen: func(t *rapid.T) muc.Item {
			return muc.Item{
				JID:         genJIDz().Draw(t, "jid"),
				Affiliation: muc.Affiliation(rapid.IntRange(0, 4).Draw(t, "affiliation")),
				Nick:        genOpt().Draw(t, "nick"),
				Role:        muc.Role(rapid.IntRange(0, 3).Draw(t, "role")),
				Reason:      genOpt().Draw(t, "reason"),
			}
		},
		eq: func(a, b muc.Item) string {
			var d differ
			d.jid("jid", a.JID, b.JID)
			d.val("affiliation", a.Affiliation, b.Affiliation)
			d.str("nick", a.Nick, b.Nick)
			d.val("role", a.Role, b.Role)
			d.str("reason", a.Reason, b.Reason)
			return d.String()
		},
		seeds: []string{`<item affiliation="owner" role="moderator" jid="a@b/c" nick="n"><reason>r</reason><actor jid="x@y"/></item>`, `<item affiliation="king"/>`},
	})
	add(spec[muc.Invitation]{
		name: "muc.Invitation", byValue: true,
		gen: genInvitation,
		eq: func(a, b muc.Invitation) string {
			return eqInvitation(a.XMLName == directName, a, b)
		},
		classes: func(v muc.Invitation) []string {
			if v.XMLName == directName {
				return []string{"direct"}
			}
			return []string{"mediated"}
		},
		seeds: []string{
			`<x xmlns="jabber:x:conference" jid="a@b" continue="true" thread="t" password="p" reason="r"/>`,
			`<x xmlns="http://jabber.org/protocol/muc#user"><invite to="a@b"><reason>r</reason><continue thread="t"/></invite><password>p</password><decline/></x>`,
			`<x xmlns="jabber:x:conference" jid="@" continue="perhaps"/>`,
		},
	})
	add(spec[inviteVia]{
		name: "muc.Invitation(MarshalDirect,MarshalMediated)", noMarshal: true, noFixedPoint: true,
		gen: func(t *rapid.T) inviteVia {
			return inviteVia{Direct: rapid.Bool().Draw(t, "direct"), Inv: genInvitation(t)}
		},
		decode: func(data []byte) (inviteVia, error) {
			var out inviteVia
			err := xml.Unmarshal(data, &out.Inv)
			out.Direct = out.Inv.XMLName == directName
			return out, err
		},
		eq: func(a, b inviteVia) string { return eqInvitation(a.Direct, a.Inv, b.Inv) },
		classes: func(v inviteVia) []string {
			if v.Direct {
				return []string{"MarshalDirect"}
			}
			return []string{"MarshalMediated"}
		},
	})

	// ---- commands
	add(spec[commands.Command]{
		name: "commands.Command", byValue: true,
		gen: func(t *rapid.T) commands.Command {
			return commands.Command{
				JID:    genJIDz().Draw(t, "jid"),
				Action: rapid.SampledFrom([]string{"", "", "execute", "cancel", "next", "prev", "complete", "<&>"}).Draw(t, "action"),
				Name:   genOpt().Draw(t, "name"),
				Node:   genText().Draw(t, "node"),
				SID:    genOpt().Draw(t, "sid"),
			}
		},
		eq: func(a, b commands.Command) string {
			var d differ
			d.jid("jid", a.JID, b.JID)
			d.str("action", a.Action, b.Action)
			d.str("name", a.Name, b.Name)
			d.str("node", a.Node, b.Node)
			d.str("sessionid", a.SID, b.SID)
			return d.String()
		},
	})
	add(spec[commands.Actions]{
		name: "commands.Actions", byValue: true,
		gen: func(t *rapid.T) commands.Actions { return commands.Actions(rapid.IntRange(0, 255).Draw(t, "actions")) },
		eq: func(a, b commands.Actions) string {
			want := a & 7
			if ex := (a & commands.Execute) >> 3; ex == commands.Prev || ex == commands.Next || ex == commands.Complete {
				want |= ex << 3 // a default action is exactly one action
			}
			var d differ
			d.val("actions", uint8(want), uint8(b))
			return d.String()
		},
		seeds: []string{`<actions execute="next"><prev/><next/><complete/>text<other/></actions>`, `<actions execute="all"><next>x<y/></next></actions>`},
	})
	add(spec[commands.Response]{
		name: "commands.Response", byValue: true,
		gen: func(t *rapid.T) commands.Response {
			return commands.Response{IQ: genIQ(t), Node: genText().Draw(t, "node"), SID: genOpt().Draw(t, "sid"),
				Status: rapid.SampledFrom([]string{"", "executing", "completed", "canceled", "<&>"}).Draw(t, "status")}
		},
		// encode only: the attributes live on the <command/> child, which the
		// struct tags do not describe
	})
	add(spec[commands.Note]{
		name: "commands.Note", byValue: true,
		gen: func(t *rapid.T) commands.Note {
			n := commands.Note{Type: commands.NoteType(rapid.IntRange(0, 2).Draw(t, "type")), Value: genText().Draw(t, "value")}
			if rapid.Bool().Draw(t, "named") {
				n.XMLName = xml.Name{Local: "note"}
			}
			return n
		},
		eq: func(a, b commands.Note) string {
			var d differ
			d.val("type", a.Type, b.Type)
			d.str("value", a.Value, b.Value)
			return d.String()
		},
		nontrivial: func(v commands.Note) bool { return hasSpecial(v.Value) && v.Type != 0 },
		seeds:      []string{`<note type="warn">w<b/></note>`, `<note type="fatal"/>`},
	})

	// ---- oob, version
	add(spec[oob.Query]{
		name: "oob.Query", byValue: true,
		gen: func(t *rapid.T) oob.Query {
			return oob.Query{URL: genText().Draw(t, "url"), Desc: genOpt().Draw(t, "desc")}
		},
		eq: func(a, b oob.Query) string {
			var d differ
			d.str("url", a.URL, b.URL)
			d.str("desc", a.Desc, b.Desc)
			return d.String()
		},
	})
	add(spec[oob.Data]{
		name: "oob.Data", byValue: true,
		gen: func(t *rapid.T) oob.Data {
			return oob.Data{URL: genText().Draw(t, "url"), Desc: genOpt().Draw(t, "desc")}
		},
		eq: func(a, b oob.Data) string {
			var d differ
			d.str("url", a.URL, b.URL)
			d.str("desc", a.Desc, b.Desc)
			return d.String()
		},
	})
	add(spec[oob.IQ]{
		name: "oob.IQ", byValue: true,
		gen: func(t *rapid.T) oob.IQ {
			return oob.IQ{IQ: genIQ(t), Query: oob.Query{URL: genText().Draw(t, "url"), Desc: genOpt().Draw(t, "desc")}}
		},
		eq: func(a, b oob.IQ) string {
			var d differ
			eqIQ(&d, a.IQ, b.IQ)
			d.str("url", a.Query.URL, b.Query.URL)
			d.str("desc", a.Query.Desc, b.Query.Desc)
			return d.String()
		},
	})
	add(spec[version.Query]{
		name: "version.Query", byValue: true,
		gen: func(t *rapid.T) version.Query {
			return version.Query{Name: genOpt().Draw(t, "name"), Version: genOpt().Draw(t, "version"), OS: genOpt().Draw(t, "os")}
		},
		eq: func(a, b version.Query) string {
			var d differ
			d.str("name", a.Name, b.Name)
			d.str("version", a.Version, b.Version)
			d.str("os", a.OS, b.OS)
			return d.String()
		},
	})

	// ---- upload
	add(spec[upload.File]{
		name: "upload.File", byValue: true,
		gen: func(t *rapid.T) upload.File {
			size := rapid.SampledFrom([]int{0, 1, -1, 1024, math.MaxInt32, math.MaxInt64, math.MinInt64}).Draw(t, "size")
			if rapid.Bool().Draw(t, "anySize") {
				size = rapid.Int().Draw(t, "sz")
			}
			return upload.File{Name: genText().Draw(t, "name"), Size: size, Type: genOpt().Draw(t, "type")}
		},
		eq: func(a, b upload.File) string {
			var d differ
			d.str("name", a.Name, b.Name)
			d.val("size", a.Size, b.Size)
			d.str("type", a.Type, b.Type)
			return d.String()
		},
		seeds: []string{`<request xmlns="urn:xmpp:http:upload:0" filename="f" size="99999999999999999999" content-type="t"/>`},
	})
	add(spec[upload.Slot]{
		name: "upload.Slot", byValue: true, sortKids: true,
		gen: func(t *rapid.T) upload.Slot {
			s := upload.Slot{PutURL: genURL(t, "put"), GetURL: genURL(t, "get")}
			for n := rapid.SampledFrom([]int{0, 0, 1, 2, 3}).Draw(t, "nheaders"); n > 0; n-- {
				if s.Header == nil {
					s.Header = http.Header{}
				}
				name := rapid.SampledFrom([]string{"Authorization", "Cookie", "Expires", "cookie", "AUTHORIZATION", "X-Other", "Content-Type"}).Draw(t, "hname")
				s.Header[name] = append(s.Header[name], genText().Draw(t, "hvalue"))
			}
			return s
		},
		eq: func(a, b upload.Slot) string {
			var d differ
			d.str("put url", urlString(a.PutURL), urlString(b.PutURL))
			d.str("get url", urlString(a.GetURL), urlString(b.GetURL))
			ha, hb := allowedHeaders(a.Header), allowedHeaders(b.Header)
			d.str("headers", fmt.Sprintf("%q", ha), fmt.Sprintf("%q", hb))
			for k := range b.Header {
				if c := http.CanonicalHeaderKey(k); c != "Authorization" && c != "Cookie" && c != "Expires" {
					d.add("decoded slot carries the header " + k + " that must be ignored")
				}
			}
			return d.String()
		},
		seeds: []string{
			`<slot xmlns="urn:xmpp:http:upload:0"><put url="https://a/b"><header name="Authorization">Basic x</header><header name="X-Evil">1</header><header>n</header></put><get url="://bad"/></slot>`,
			`<slot xmlns="urn:xmpp:http:upload:0"><put url="%zz"/></slot>`,
		},
	})

	// ---- bin
	add(spec[bin.Data]{
		name: "bin.Data",
		gen: func(t *rapid.T) bin.Data {
			return bin.Data{
				CID:     genOpt().Draw(t, "cid"),
				MaxAge:  rapid.SampledFrom(maxAges).Draw(t, "maxAge"),
				NoCache: rapid.IntRange(0, 3).Draw(t, "noCache") == 0,
				Type:    genOpt().Draw(t, "type"),
				Data:    genBytes(0, 20).Draw(t, "data"),
			}
		},
		eq: func(a, b bin.Data) string {
			var d differ
			d.str("cid", a.CID, b.CID)
			d.str("type", a.Type, b.Type)
			d.bytes("data", a.Data, b.Data)
			// "MaxAge is a hint ... (rounded to the nearest second)", NoCache
			// overrides it, max-age="0" means do not cache
			wantNoCache, wantAge := a.NoCache, time.Duration(0)
			if !a.NoCache && a.MaxAge > 0 {
				secs := math.RoundToEven(a.MaxAge.Seconds())
				if secs == 0 {
					wantNoCache = true
				} else {
					wantAge = time.Duration(secs) * time.Second
				}
			}
			d.val("no-cache", wantNoCache, b.NoCache)
			d.val("max-age", wantAge, b.MaxAge)
			return d.String()
		},
		classes: func(v bin.Data) []string {
			return []string{fmt.Sprintf("data-len-mod-3=%d", len(v.Data)%3)}
		},
		seeds: []string{
			`<data xmlns="urn:xmpp:bob" cid="sha1+8f35fef110ffc5df08d579a50083ff9308fb6242@bob.xmpp.org" max-age="86400" type="image/png">aGVsbG8=</data>`,
			`<data xmlns="urn:xmpp:bob" max-age="-5">a=</data>`,
			`<data xmlns="urn:xmpp:bob" max-age="9223372036854775807">!!!!</data>`,
		},
	})

	// ---- file
	add(spec[file.Meta]{
		name: "file.Meta",
		gen: func(t *rapid.T) file.Meta {
			return file.Meta{
				MediaType: genOpt().Draw(t, "mediaType"),
				Name:      genOpt().Draw(t, "name"),
				Date:      genTimez().Draw(t, "date"),
				Size:      genU64().Draw(t, "size"),
				// crypto.HashOutput documents that an invalid hash panics and its
				// own tests mark an empty digest as not decodable
				Hash:   crypto.HashOutput{Hash: rapid.SampledFrom(hashes).Draw(t, "hash"), Out: genBytes(1, 64).Draw(t, "out")},
				Width:  genU64().Draw(t, "width"),
				Height: genU64().Draw(t, "height"),
				Length: genU64().Draw(t, "length"),
			}
		},
		eq: func(a, b file.Meta) string {
			var d differ
			d.str("media-type", a.MediaType, b.MediaType)
			d.str("name", a.Name, b.Name)
			d.instant("date", a.Date, b.Date)
			d.val("size", a.Size, b.Size)
			d.val("hash", a.Hash.Hash, b.Hash.Hash)
			d.bytes("hash output", a.Hash.Out, b.Hash.Out)
			d.val("width", a.Width, b.Width)
			d.val("height", a.Height, b.Height)
			d.val("length", a.Length, b.Length)
			return d.String()
		},
		classes: func(v file.Meta) []string { return subSecond(v.Date) },
		seeds: []string{
			`<file xmlns="urn:xmpp:file:metadata:0"><media-type>t</media-type><name>n</name><date>2024-01-01T01:01:01Z</date><size>1</size><hash xmlns="urn:xmpp:hashes:2" algo="sha-256">AQID</hash><width>1</width><height>2</height><length>3</length><desc>d</desc></file>`,
			`<file xmlns="urn:xmpp:file:metadata:0"><date>yesterday</date><size>-1</size></file>`,
		},
	})

	// ---- crypto
	add(spec[crypto.Hash]{
		name: "crypto.Hash", byValue: true,
		gen:   func(t *rapid.T) crypto.Hash { return rapid.SampledFrom(hashes).Draw(t, "hash") },
		eq:    func(a, b crypto.Hash) string { var d differ; d.val("hash", a, b); return d.String() },
		seeds: []string{`<hash-used xmlns="urn:xmpp:hashes:2" algo="sha-256"/>`, `<hash-used xmlns="urn:xmpp:hashes:2"/>`},
	})
	add(spec[crypto.HashOutput]{
		name: "crypto.HashOutput", byValue: true,
		gen: func(t *rapid.T) crypto.HashOutput {
			return crypto.HashOutput{Hash: rapid.SampledFrom(hashes).Draw(t, "hash"), Out: genBytes(0, 64).Draw(t, "out")}
		},
		eq: func(a, b crypto.HashOutput) string {
			var d differ
			d.val("hash", a.Hash, b.Hash)
			d.bytes("out", a.Out, b.Out)
			return d.String()
		},
		oneWay: func(v crypto.HashOutput) string {
			if len(v.Out) == 0 {
				return "empty-digest" // crypto_test.go case 13/14
			}
			return ""
		},
		nontrivial: func(v crypto.HashOutput) bool { return len(v.Out) > 0 },
		seeds:      []string{`<hash xmlns="urn:xmpp:hashes:2" algo="sha-256">2XarmwTlNxDAMkvymloX3S5+VbylNrJt/l5QyPa+YoU=</hash>`, `<hash xmlns="urn:xmpp:hashes:2" algo="sha-256"><x/></hash>`},
	})
	genKey := func(t *rapid.T) crypto.Key {
		return crypto.Key{Trusted: rapid.Bool().Draw(t, "trusted"), KeyID: genBytes(0, 40).Draw(t, "keyid")}
	}
	eqKey := func(p string, a, b crypto.Key) string {
		var d differ
		d.val(p+"trusted", a.Trusted, b.Trusted)
		d.bytes(p+"key id", a.KeyID, b.KeyID)
		return d.String()
	}
	genOwned := func(t *rapid.T) crypto.OwnedKeys {
		ok := crypto.OwnedKeys{Owner: genJIDz().Draw(t, "owner")}
		for n := listLen(t, "nkeys", 3); n > 0; n-- {
			ok.Keys = append(ok.Keys, genKey(t))
		}
		return ok
	}
	eqOwned := func(p string, a, b crypto.OwnedKeys) string {
		var d differ
		d.jid(p+"owner", a.Owner, b.Owner)
		if len(a.Keys) != len(b.Keys) {
			d.add(fmt.Sprintf("%skeys: %d became %d", p, len(a.Keys), len(b.Keys)))
			return d.String()
		}
		for i := range a.Keys {
			d.add(eqKey(fmt.Sprintf("%skey[%d].", p, i), a.Keys[i], b.Keys[i]))
		}
		return d.String()
	}
	add(spec[crypto.Key]{
		name: "crypto.Key", byValue: true,
		gen:        genKey,
		eq:         func(a, b crypto.Key) string { return eqKey("", a, b) },
		nontrivial: func(v crypto.Key) bool { return len(v.KeyID) > 0 },
		seeds:      []string{`<trust>MTIz</trust>`, `<distrust>YWJjZA==<foo/></distrust>`, `<other/>`},
	})
	add(spec[crypto.OwnedKeys]{
		name: "crypto.OwnedKeys", byValue: true,
		gen: genOwned,
		eq:  func(a, b crypto.OwnedKeys) string { return eqOwned("", a, b) },
		nontrivial: func(v crypto.OwnedKeys) bool {
			return len(v.Keys) > 0 && v.Owner.String() != ""
		},
		seeds: []string{`<key-owner jid="a@b"><distrust>MTIz</distrust><trust>YWJj</trust><foo/></key-owner>`},
	})
	add(spec[crypto.TrustMessage]{
		name: "crypto.TrustMessage", byValue: true,
		gen: func(t *rapid.T) crypto.TrustMessage {
			tm := crypto.TrustMessage{Usage: genText().Draw(t, "usage"), Encryption: genText().Draw(t, "encryption")}
			for n := listLen(t, "nowners", 3); n > 0; n-- {
				tm.Keys = append(tm.Keys, genOwned(t))
			}
			return tm
		},
		eq: func(a, b crypto.TrustMessage) string {
			var d differ
			d.str("usage", a.Usage, b.Usage)
			d.str("encryption", a.Encryption, b.Encryption)
			if len(a.Keys) != len(b.Keys) {
				d.add(fmt.Sprintf("key owners: %d became %d", len(a.Keys), len(b.Keys)))
				return d.String()
			}
			for i := range a.Keys {
				d.add(eqOwned(fmt.Sprintf("owner[%d].", i), a.Keys[i], b.Keys[i]))
			}
			return d.String()
		},
		seeds: []string{`<trust-message xmlns="urn:xmpp:tm:1" usage="urn:xmpp:atm:1" encryption="urn:xmpp:omemo:2"><key-owner jid="a@b"><trust>MTIz</trust></key-owner><key-owner jid="@"/></trust-message>`},
	})

	// ---- styling, ping, sasl errors, pubsub conditions
	add(spec[styling.Unstyled]{
		name: "styling.Unstyled", byValue: true,
		gen: func(t *rapid.T) styling.Unstyled { return styling.Unstyled{Value: rapid.Bool().Draw(t, "value")} },
		eq: func(a, b styling.Unstyled) string {
			var d differ
			d.val("value", a.Value, b.Value)
			return d.String()
		},
		// The documentation says the value tells whether the hint "will be
		// present", but styling/disable_test.go (TestMarshal) pins that the zero
		// value is marshalled as the hint as well; the check follows the test.
		oneWay: func(v styling.Unstyled) string {
			if !v.Value {
				return "false-is-marshalled-as-hint"
			}
			return ""
		},
		nontrivial: func(v styling.Unstyled) bool { return v.Value },
	})
	add(spec[ping.IQ]{
		name: "ping.IQ", byValue: true,
		gen: func(t *rapid.T) ping.IQ { return ping.IQ{IQ: genIQ(t)} },
		eq:  func(a, b ping.IQ) string { var d differ; eqIQ(&d, a.IQ, b.IQ); return d.String() },
	})
	add(spec[saslerr.Condition]{
		name: "saslerr.Condition", byValue: true,
		gen: func(t *rapid.T) saslerr.Condition {
			return saslerr.Condition(rapid.SampledFrom([]int{0, 1, 2, 3, 4, 5, 6, 7, 8, 9, 10, 11, 12, 100, 65535}).Draw(t, "cond"))
		},
		eq: func(a, b saslerr.Condition) string { var d differ; d.val("condition", a, b); return d.String() },
		emptyOK: func(v saslerr.Condition) bool {
			return v == saslerr.ConditionNone || v > saslerr.ConditionTemporaryAuthFailure
		},
		nontrivial: func(v saslerr.Condition) bool { return v >= 1 && v <= saslerr.ConditionTemporaryAuthFailure },
		seeds:      []string{`<not-authorized xmlns="urn:ietf:params:xml:ns:xmpp-sasl"/>`, `<badcondition/>`},
	})
	add(spec[saslerr.Error]{
		name: "saslerr.Error", byValue: true,
		gen: func(t *rapid.T) saslerr.Error {
			return saslerr.Error{
				Condition: saslerr.Condition(rapid.IntRange(0, 11).Draw(t, "cond")),
				Lang:      rapid.SampledFrom([]string{"", "", "en", "x-<&>"}).Draw(t, "lang"),
				Text:      genOpt().Draw(t, "text"),
			}
		},
		eq: func(a, b saslerr.Error) string {
			var d differ
			d.val("condition", a.Condition, b.Condition)
			d.str("text", a.Text, b.Text)
			if a.Text != "" { // the language tag qualifies the text
				d.str("lang", a.Lang, b.Lang)
			}
			return d.String()
		},
		seeds: []string{`<failure xmlns="urn:ietf:params:xml:ns:xmpp-sasl"><not-authorized/><text xml:lang="en">a</text><text xml:lang="de">b</text></failure>`, `<failure xmlns="urn:ietf:params:xml:ns:xmpp-sasl">x<a/><b/></failure>`},
	})
	add(spec[pubsubCond]{
		name: "pubsub.Condition", noMarshal: true, noFixedPoint: true,
		gen: func(t *rapid.T) pubsubCond {
			return pubsubCond{C: pubsub.Condition(rapid.IntRange(1, int(pubsub.CondUnsupportedAccessModel)).Draw(t, "cond"))}
		},
		decode: func(data []byte) (pubsubCond, error) {
			var out pubsubCond
			err := xml.Unmarshal(data, &out.C)
			return out, err
		},
		eq:         func(a, b pubsubCond) string { var d differ; d.val("condition", a.C, b.C); return d.String() },
		nontrivial: func(pubsubCond) bool { return true },
		seeds:      []string{`<unsupported xmlns="http://jabber.org/protocol/pubsub#errors" feature="subscribe"/>`, `<nope/>`},
	})
}
