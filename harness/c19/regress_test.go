package c19

import (
	"encoding/xml"
	"fmt"
	"testing"
	"time"

	"mellium.im/xmpp/bin"
	"mellium.im/xmpp/crypto"
	"mellium.im/xmpp/disco"
	"mellium.im/xmpp/disco/info"
	"mellium.im/xmpp/file"
	"mellium.im/xmpp/form"
	"mellium.im/xmpp/history"
	"mellium.im/xmpp/muc"
	"mellium.im/xmpp/verifharness/internal/ev"
)

// TestC19Regress replays the concrete input of every finding made by this
// check (see NOTES.md); it keeps running after the defects are repaired.
func TestC19Regress(t *testing.T) {
	value := func(name, typ string, v any) {
		t.Run(name, func(t *testing.T) {
			ev.Begin(t)
			e := byName(typ)
			ev.Case(true, "regress "+e.render(v), "regress")
			e.check(t, v)
		})
	}
	document := func(name, typ, doc string) {
		t.Run(name, func(t *testing.T) {
			ev.Begin(t)
			ev.Case(true, "regress unmarshal "+typ+" "+doc, "regress")
			checkUnmarshal(t, byName(typ), []byte(doc))
		})
	}
	formCase := func(name string, typ form.FieldType, opts []form.Option, v any) {
		t.Run(name, func(t *testing.T) {
			ev.Begin(t)
			d := form.New(mkField(typ, "f", opts...))
			cs := fmt.Sprintf("regress New(%s(\"f\", %d options)); Set(\"f\", %#v); Submit()", typ, len(opts), v)
			ev.Case(true, cs, "regress")
			var ops []setOp
			if v != nil {
				ops = []setOp{{"f", v, fmt.Sprintf("%#v", v)}}
			}
			runFormCase(t, d, []fieldPlan{{Typ: typ, ID: "f"}}, ops, cs)
		})
	}

	// form: text-multi submission of a value that is empty or ends in a line break
	formCase("text-multi-trailing-newline", form.TypeTextMulti, nil, "abc\n")
	formCase("text-multi-empty", form.TypeTextMulti, nil, "")
	formCase("text-multi-only-newline", form.TypeTextMulti, nil, "\n")
	formCase("text-multi-empty-default", form.TypeTextMulti, []form.Option{form.Required, form.Value("")}, nil)
	formCase("text-multi-lines", form.TypeTextMulti, nil, "a\n\nb")
	document("submit-form-with-empty-text-multi-line", "form.Data",
		`<x xmlns="jabber:x:data" type="submit"><field type="text-multi" var="a"><value>x</value><value></value></field></x>`)

	// form: a hidden field may carry several values
	hidden := form.New(form.Hidden("h", form.Value("a"), form.Value("b")))
	value("hidden-two-values", "form.Data", &hidden)

	// disco.Info drops its forms when written
	inf := disco.Info{
		Features: []info.Feature{{Var: "urn:x"}},
		Form:     []form.Data{*form.New(form.Result, form.Hidden("FORM_TYPE", form.Value("urn:xmpp:dataforms:softwareinfo")), form.Text("os", form.Value("Mac")))},
	}
	value("info-with-form", "disco.Info", &inf)

	// history.Query: page id lost, sub-second start/end truncated, panic without a form
	value("query-page-id-after", "history.Query", &history.Query{PageID: "a"})
	value("query-page-id-before", "history.Query", &history.Query{PageID: "a", Last: true})
	value("query-start-subsecond", "history.Query", &history.Query{Start: time.Date(2021, 3, 4, 5, 6, 7, 500000000, time.UTC)})
	value("query-end-subsecond", "history.Query", &history.Query{End: time.Date(2021, 3, 4, 5, 6, 7, 1, time.UTC)})
	document("query-without-form", "history.Query", `<query xmlns="urn:xmpp:mam:2" queryid="q"/>`)

	// bin.Data: decoded data padded with zero bytes
	value("bob-one-byte", "bin.Data", &bin.Data{Data: []byte("a")})
	value("bob-two-bytes", "bin.Data", &bin.Data{Data: []byte("ab"), Type: "text/plain", CID: "c"})

	// file.Meta: sub-second date truncated; a decoded description without hash cannot be written
	value("meta-date-subsecond", "file.Meta", &file.Meta{
		Date: time.Date(2024, 1, 1, 1, 1, 1, 250000000, time.UTC),
		Hash: crypto.HashOutput{Hash: crypto.SHA256, Out: []byte{1, 2, 3}},
	})
	document("meta-without-hash", "file.Meta", `<file xmlns="urn:xmpp:file:metadata:0"><name>n</name></file>`)

	// muc: Item marshalled by value writes numeric role/affiliation; MarshalDirect uses XMLName
	value("muc-item-by-value", "muc.Item", &muc.Item{Role: muc.RoleModerator, Affiliation: muc.AffiliationOwner})
	value("marshal-direct-zero-name", "muc.Invitation(MarshalDirect,MarshalMediated)", &inviteVia{Direct: true, Inv: muc.Invitation{Reason: "r"}})
	value("marshal-direct-mediated-name", "muc.Invitation(MarshalDirect,MarshalMediated)",
		&inviteVia{Direct: true, Inv: muc.Invitation{XMLName: xml.Name{Space: muc.NSUser, Local: "x"}, Password: "p"}})
}
