package c19

import (
	"encoding/xml"
	"fmt"
	"strconv"
	"strings"
	"testing"

	"pgregory.net/rapid"

	"mellium.im/xmpp/form"
	"mellium.im/xmpp/jid"
	"mellium.im/xmpp/verifharness/internal/ev"
)

// TestC19FormAPI drives the data form builder and the Set/Get/Submit API with
// values of every field type.
//
// Oracle: no call panics; Set follows its documented contract (error for a
// value of the wrong Go type, ok=false for an unknown field); the submission
// is well-formed, decodes as a data form and carries, for every field that was
// set, exactly the lines/addresses/flags that were set (empty strings are not
// representable as data and are dropped); the decoded submission can itself be
// encoded again and keeps its values.

type setOp struct {
	ID   string
	Val  any
	Desc string
}

func genSetValue(t *rapid.T, typ form.FieldType) (any, string) {
	kind := map[form.FieldType]int{
		form.TypeBoolean: 0, form.TypeText: 1, form.TypeTextPrivate: 1, form.TypeHidden: 1, form.TypeList: 1,
		form.TypeTextMulti: 2, form.TypeJID: 3, form.TypeJIDMulti: 4, form.TypeListMulti: 5, form.TypeFixed: 1,
	}[typ]
	if typ == "" || rapid.IntRange(0, 5).Draw(t, "wrongType") == 0 {
		kind = rapid.IntRange(0, 6).Draw(t, "kind")
	}
	switch kind {
	case 0:
		b := rapid.Bool().Draw(t, "bool")
		return b, fmt.Sprintf("%v", b)
	case 1:
		s := genText().Draw(t, "string")
		return s, fmt.Sprintf("%q", s)
	case 2: // multi-line text, including the edge cases: empty, trailing and doubled line breaks
		var s string
		if rapid.Bool().Draw(t, "edge") {
			s = rapid.SampledFrom([]string{"", "\n", "abc\n", "a\nb", "a\n\nb", "\na", "a\nb\n", "\n\n"}).Draw(t, "lines")
		} else {
			n := rapid.IntRange(1, 4).Draw(t, "nlines")
			var parts []string
			for i := 0; i < n; i++ {
				parts = append(parts, genLine().Draw(t, "line"))
			}
			s = strings.Join(parts, "\n")
		}
		return s, fmt.Sprintf("%q", s)
	case 3:
		j := genJIDz().Draw(t, "jid")
		return j, "jid(" + strconv.Quote(j.String()) + ")"
	case 4:
		var js []jid.JID
		var ds []string
		for n := listLen(t, "njids", 3); n > 0; n-- {
			j := genJIDz().Draw(t, "jid")
			js = append(js, j)
			ds = append(ds, strconv.Quote(j.String()))
		}
		return js, "jids[" + strings.Join(ds, ",") + "]"
	case 5:
		var ss []string
		for n := listLen(t, "nstrings", 3); n > 0; n-- {
			ss = append(ss, genText().Draw(t, "item"))
		}
		return ss, fmt.Sprintf("%q", ss)
	}
	i := rapid.Int().Draw(t, "int")
	return i, fmt.Sprintf("int(%d)", i)
}

// setContract is the documented contract of Set for a field of type typ
// (typ == "" when no such field exists).
func setContract(typ form.FieldType, v any) (wantOK, wantErr bool) {
	var good bool
	switch typ {
	case "":
		return false, false
	case form.TypeFixed:
		return false, true
	case form.TypeBoolean:
		_, good = v.(bool)
	case form.TypeText, form.TypeTextPrivate, form.TypeHidden, form.TypeList, form.TypeTextMulti:
		_, good = v.(string)
	case form.TypeJID:
		_, good = v.(jid.JID)
	case form.TypeJIDMulti:
		_, good = v.([]jid.JID)
	case form.TypeListMulti:
		_, good = v.([]string)
	}
	return good, !good
}

// wantSubmitted is the reference for what a successfully set value looks like
// in the submission.
func wantSubmitted(typ form.FieldType, v any) []string {
	var out []string
	switch x := v.(type) {
	case bool:
		out = []string{strconv.FormatBool(x)}
	case string:
		if typ == form.TypeTextMulti {
			out = strings.Split(x, "\n") // one <value/> per line
		} else {
			out = []string{x}
		}
	case jid.JID:
		out = []string{x.String()}
	case []jid.JID:
		for _, j := range x {
			out = append(out, j.String())
		}
	case []string:
		out = x
	}
	var keep []string
	for _, s := range out {
		if s != "" { // an empty <value/> carries no data
			keep = append(keep, s)
		}
	}
	return keep
}

func readSubmission(r xml.TokenReader) (data []byte, c canon, err error) {
	data, err = encodeTokens(r)
	if err != nil {
		return data, c, err
	}
	c, err = canonFromBytes(data)
	return data, c, err
}

func TestC19FormAPI(t *testing.T) {
	ev.Check(t, 12000, 80000, func(rt *rapid.T) {
		// form.New and the field constructors only record their arguments
		d, plans, desc := genFormPlan(rt)
		typeOf := map[string]form.FieldType{}
		for _, p := range plans {
			if _, dup := typeOf[p.ID]; !dup {
				typeOf[p.ID] = p.Typ
			}
		}
		// operations
		var ops []setOp
		for n := rapid.IntRange(0, 5).Draw(rt, "nsets"); n > 0; n-- {
			id := "no-such-field"
			var typ form.FieldType
			if len(plans) > 0 && rapid.IntRange(0, 7).Draw(rt, "unknown") != 0 {
				p := plans[rapid.IntRange(0, len(plans)-1).Draw(rt, "which")]
				id, typ = p.ID, typeOf[p.ID]
			}
			v, vd := genSetValue(rt, typ)
			ops = append(ops, setOp{id, v, vd})
		}
		var opd []string
		for _, o := range ops {
			opd = append(opd, fmt.Sprintf("Set(%q, %s)", o.ID, o.Desc))
		}
		caseStr := desc + " ; " + strings.Join(opd, " ; ") + " ; Submit()"
		classes := []string{"formapi"}
		nt := false
		for _, o := range ops {
			typ := typeOf[o.ID]
			if ok, _ := setContract(typ, o.Val); ok {
				classes = append(classes, "set:"+string(typ))
				if s, isStr := o.Val.(string); isStr && typ == form.TypeTextMulti {
					if s == "" || strings.HasSuffix(s, "\n") {
						classes = append(classes, "text-multi-empty-or-trailing-newline")
					}
				}
				if hasSpecial(o.Desc) {
					nt = true
				}
			} else {
				classes = append(classes, "set-rejected-or-unknown")
			}
		}
		ev.Case(nt, caseStr, classes...)
		runFormCase(rt, d, plans, ops, caseStr)
	})
}

// runFormCase applies ops to d (built as recorded in plans), submits, and
// checks the submission; shared by the rapid property and the regressions.
func runFormCase(t fataler, d *form.Data, plans []fieldPlan, ops []setOp, caseStr string) {
	t.Helper()
	typeOf := map[string]form.FieldType{}
	for _, p := range plans {
		if _, dup := typeOf[p.ID]; !dup {
			typeOf[p.ID] = p.Typ
		}
	}
	fail := func(format string, args ...any) {
		ev.Failf(t, "%s\n%s", caseStr, fmt.Sprintf(format, args...))
	}

	// the form as built, before anything is set or submitted
	formBefore, berr := xml.Marshal(d)
	set := map[string]any{}
	for _, o := range ops {
		var ok bool
		var err error
		if pn := ev.Guard(func() { ok, err = d.Set(o.ID, o.Val) }); pn != "" {
			fail("Set(%q, %s) panicked: %s", o.ID, o.Desc, pn)
		}
		wantOK, wantErr := setContract(typeOf[o.ID], o.Val)
		if (err != nil) != wantErr || ok != wantOK {
			fail("Set(%q, %s) on a field of type %q = (%v, %v); documented: ok=%v, error=%v", o.ID, o.Desc, typeOf[o.ID], ok, err, wantOK, wantErr)
		}
		if err == nil {
			set[o.ID] = o.Val
		}
		// the typed getters never panic, whatever is stored
		if pn := ev.Guard(func() {
			d.Get(o.ID)
			d.GetString(o.ID)
			d.GetStrings(o.ID)
			d.GetBool(o.ID)
			d.GetJID(o.ID)
			d.GetJIDs(o.ID)
			d.Raw(o.ID)
			d.GetOptions(o.ID)
			d.Len()
		}); pn != "" {
			fail("a getter panicked after Set(%q, %s): %s", o.ID, o.Desc, pn)
		}
		if v, ok := d.Get(o.ID); err == nil && (!ok || fmt.Sprintf("%v", v) != fmt.Sprintf("%v", o.Val)) {
			fail("Get(%q) after a successful Set(%s) = (%v, %v)", o.ID, o.Desc, v, ok)
		}
	}
	for _, p := range plans {
		if pn := ev.Guard(func() { d.Get(p.ID); d.GetString(p.ID); d.GetStrings(p.ID); d.GetJIDs(p.ID); d.GetOptions(p.ID) }); pn != "" {
			fail("a getter panicked for field %q: %s", p.ID, pn)
		}
	}

	var sub xml.TokenReader
	var subOK bool
	if pn := ev.Guard(func() { sub, subOK = d.Submit() }); pn != "" {
		fail("Submit panicked: %s", pn)
	}
	var data []byte
	var c canon
	var err error
	if pn := ev.Guard(func() { data, c, err = readSubmission(sub) }); pn != "" {
		fail("reading the submission panicked: %s", pn)
	}
	if err != nil {
		fail("the submission is not well-formed: %v\noutput: %q", err, data)
	}
	if len(c.roots) != 1 || c.roots[0].space != form.NS || c.roots[0].local != "x" {
		fail("the submission is not a single jabber:x:data form: %q", data)
	}
	if !strings.Contains(strings.Join(c.roots[0].attrs, " "), `{}type="submit"`) {
		fail("the submission is not of type submit: %q", data)
	}
	anyRequired := false
	for _, p := range plans {
		for _, o := range p.Opts {
			anyRequired = anyRequired || o == "Required"
		}
	}
	if !anyRequired && !subOK {
		fail("Submit reported ok=false although no field is required")
	}
	var d2 form.Data
	if pn := ev.Guard(func() { err = xml.Unmarshal(data, &d2) }); pn != "" {
		fail("decoding the submission panicked: %s\nsubmission: %q", pn, data)
	}
	if err != nil {
		fail("the submission does not decode as a form: %v\nsubmission: %q", err, data)
	}
	for id, v := range set {
		typ, exists := typeOf[id]
		if !exists || typ == form.TypeFixed {
			continue
		}
		want := wantSubmitted(typ, v)
		got, _ := d2.Raw(id)
		if strings.Join(want, "\x00") != strings.Join(got, "\x00") || len(want) != len(got) {
			fail("field %q (%s) was set to %v but the submission carries %q, want %q\nsubmission: %q", id, typ, v, got, want, data)
		}
	}
	// filling in and submitting a form, and encoding the submission, must leave
	// the form itself alone: it still encodes to what it encoded to before, and a
	// second submission is the same document as the first
	if berr == nil {
		if after, err := xml.Marshal(d); err != nil {
			fail("encoding the form after Submit failed: %v", err)
		} else {
			cb, e1 := canonFromBytes(formBefore)
			ca, e2 := canonFromBytes(after)
			if e1 == nil && e2 == nil && cb.String() != ca.String() {
				fail("Set/Submit changed what the form itself encodes to:\n before: %q\n after:  %q", formBefore, after)
			}
		}
	}
	var sub2 xml.TokenReader
	if pn := ev.Guard(func() { sub2, _ = d.Submit() }); pn != "" {
		fail("second Submit panicked: %s", pn)
	}
	if dataB, cB, errB := readSubmission(sub2); errB != nil || cB.String() != c.String() {
		fail("submitting the same form twice gives different documents (encoding the first submission changed the form):\n first:  %q\n second: %q (%v)", data, dataB, errB)
	}
	// the decoded submission, too, must not change when it is encoded
	var data3 []byte
	if pn := ev.Guard(func() { data3, err = xml.Marshal(&d2) }); pn != "" {
		fail("encoding the decoded submission panicked: %s\nsubmission: %q", pn, data)
	}
	if err != nil {
		fail("encoding the decoded submission failed: %v", err)
	}
	if _, err := canonFromBytes(data3); err != nil {
		fail("the re-encoded submission is not well-formed: %v: %q", err, data3)
	}
	var d3 form.Data
	if err := xml.Unmarshal(data3, &d3); err != nil {
		fail("the re-encoded submission does not decode: %v: %q", err, data3)
	}
	d3.ForFields(func(f form.FieldData) {
		if f.Var == "" {
			return
		}
		before, _ := d2.Raw(f.Var)
		if strings.Join(before, "\x00") != strings.Join(f.Raw, "\x00") {
			fail("re-encoding the decoded submission changed field %q from %q to %q\nfirst: %q\nsecond: %q", f.Var, before, f.Raw, data, data3)
		}
	})
}

// TestC19FormNil: the nil form is documented to submit as an empty form.
func TestC19FormNil(t *testing.T) {
	ev.Begin(t)
	ev.Case(false, "(*form.Data)(nil).Submit()", "formapi-nil")
	var d *form.Data
	var r xml.TokenReader
	if pn := ev.Guard(func() { r, _ = d.Submit(); d.Len(); d.Raw("x") }); pn != "" {
		ev.Failf(t, "nil form: %s", pn)
	}
	if data, _, err := readSubmission(r); err != nil {
		ev.Failf(t, "nil form submission is not well-formed: %v: %q", err, data)
	}
}
