package c19

import (
	"fmt"
	"strings"
	"time"
	"unicode"

	"pgregory.net/rapid"

	"mellium.im/xmpp/jid"
)

// ---------------------------------------------------------------- text

// Pieces of text within the domain: everything XML 1.0 can represent and that
// survives an XML parser unchanged (no \r, no C0 controls other than \t \n, no
// U+FFFE/U+FFFF, valid UTF-8 only).
var textPieces = []string{
	"a", "abc", "hello world", "x y", "0", "-1", "true", "18446744073709551616",
	"<", ">", "&", "'", "\"", "]]>", "&amp;", "&lt;b&gt;", "<!--", "<![CDATA[", "</x>", "&#x0;", "%", "\\",
	"\n", "\t", " ", "  ", "\n\n",
	"é", "ü", "日本語", "😀", "é", " ", " ", "�", "\U0010ffff", "ß", "İ", "ǅ",
}

func genText() *rapid.Generator[string] {
	return rapid.Custom(func(t *rapid.T) string {
		switch rapid.IntRange(0, 9).Draw(t, "textKind") {
		case 0:
			return ""
		case 1:
			return rapid.SampledFrom([]string{"a", "abc", "node", "urn:example:x", "hello world", "42"}).Draw(t, "plain")
		case 2: // long
			return strings.Repeat(rapid.SampledFrom(textPieces).Draw(t, "rep"), rapid.IntRange(20, 300).Draw(t, "n"))
		case 3: // trailing newline
			return rapid.SampledFrom([]string{"abc\n", "\n", "a\nb\n", "x\n\n", " a ", "\ta", "a\t"}).Draw(t, "edge")
		case 4: // arbitrary valid runes
			return rapid.StringOfN(rapid.RuneFrom(nil, xmlChars), 0, 8, -1).Draw(t, "runes")
		default:
			n := rapid.IntRange(1, 5).Draw(t, "pieces")
			var sb strings.Builder
			for i := 0; i < n; i++ {
				sb.WriteString(rapid.SampledFrom(textPieces).Draw(t, "piece"))
			}
			return sb.String()
		}
	})
}

// genTextNE is genText without the empty string.
func genTextNE() *rapid.Generator[string] {
	return rapid.Custom(func(t *rapid.T) string {
		s := genText().Draw(t, "text")
		if s == "" {
			return rapid.SampledFrom(textPieces).Draw(t, "nonempty")
		}
		return s
	})
}

// genOpt returns "" half of the time (optional field absent).
func genOpt() *rapid.Generator[string] {
	return rapid.Custom(func(t *rapid.T) string {
		if rapid.Bool().Draw(t, "present") {
			return genText().Draw(t, "text")
		}
		return ""
	})
}

// genLine is text without line breaks (for fields documented single-line).
func genLine() *rapid.Generator[string] {
	return rapid.Custom(func(t *rapid.T) string {
		return strings.NewReplacer("\n", " ", " ", " ").Replace(genText().Draw(t, "text"))
	})
}

// ---------------------------------------------------------------- JIDs

var jidPool []jid.JID

func init() {
	locals := []string{"", "a", "juliet", "müller", "名前", "a.b-c_d", "x+y", "user%name", "ǅ"}
	domains := []string{"example.net", "a.example.org", "localhost", "bücher.example", "muc.localhost", "192.0.2.1", "[::1]"}
	resources := []string{"", "res", "a b", "<&>", "\"quoted'", "r/s@t", "ゴジラ", "😀", "x]]>y"}
	for _, l := range locals {
		for _, d := range domains {
			for _, r := range resources {
				j, err := jid.New(l, d, r)
				if err != nil {
					continue
				}
				// only keep addresses whose string form parses back to an equal
				// address (the precondition of every jid attribute round trip;
				// C11 is about JIDs themselves)
				if j2, err := jid.Parse(j.String()); err != nil || !j2.Equal(j) {
					continue
				}
				jidPool = append(jidPool, j)
			}
		}
	}
	if len(jidPool) < 200 {
		panic(fmt.Sprintf("jid pool too small: %d", len(jidPool)))
	}
}

// genJID draws a valid, non-zero address built with jid.New.
func genJID() *rapid.Generator[jid.JID] {
	return rapid.Custom(func(t *rapid.T) jid.JID {
		return jidPool[rapid.IntRange(0, len(jidPool)-1).Draw(t, "jid")]
	})
}

// genJIDz also yields the zero JID (attribute absent).
func genJIDz() *rapid.Generator[jid.JID] {
	return rapid.Custom(func(t *rapid.T) jid.JID {
		if rapid.IntRange(0, 3).Draw(t, "zeroJID") == 0 {
			return jid.JID{}
		}
		return genJID().Draw(t, "j")
	})
}

// ---------------------------------------------------------------- time

var nanosPool = []int{0, 0, 1, 1000, 120000000, 123456789, 500000000, 999999999, 999999000}

// genTime draws an instant between years 2 and 9998 with sub-second precision
// in UTC or a zone with a whole-minute offset of at most 14 hours (what an
// XEP-0082 TZD can express).
func genTime() *rapid.Generator[time.Time] {
	return rapid.Custom(func(t *rapid.T) time.Time {
		year := rapid.SampledFrom([]int{2, 1582, 1969, 1970, 1999, 2000, 2021, 2024, 2038, 2100, 9998}).Draw(t, "year")
		if rapid.Bool().Draw(t, "anyYear") {
			year = rapid.IntRange(2, 9998).Draw(t, "y")
		}
		mon := rapid.IntRange(1, 12).Draw(t, "mon")
		day := rapid.IntRange(1, 28).Draw(t, "day")
		h := rapid.IntRange(0, 23).Draw(t, "h")
		mi := rapid.IntRange(0, 59).Draw(t, "mi")
		s := rapid.IntRange(0, 59).Draw(t, "s")
		ns := rapid.SampledFrom(nanosPool).Draw(t, "ns")
		loc := time.UTC
		switch rapid.IntRange(0, 3).Draw(t, "zone") {
		case 0:
		case 1:
			loc = time.FixedZone("", rapid.SampledFrom([]int{-12 * 60, -330, -1, 1, 60, 330, 345, 14 * 60}).Draw(t, "off")*60)
		default:
			loc = time.FixedZone("", rapid.IntRange(-14*60, 14*60).Draw(t, "offMin")*60)
		}
		return time.Date(year, time.Month(mon), day, h, mi, s, ns, loc)
	})
}

// genTimez also yields the zero time.
func genTimez() *rapid.Generator[time.Time] {
	return rapid.Custom(func(t *rapid.T) time.Time {
		if rapid.IntRange(0, 3).Draw(t, "zeroTime") == 0 {
			return time.Time{}
		}
		return genTime().Draw(t, "time")
	})
}

func genU64() *rapid.Generator[uint64] {
	return rapid.Custom(func(t *rapid.T) uint64 {
		if rapid.Bool().Draw(t, "edge") {
			return rapid.SampledFrom([]uint64{0, 1, 2, 10, 255, 1 << 31, 1<<32 - 1, 1 << 32, 1<<63 - 1, 1 << 63, 1<<64 - 1}).Draw(t, "u64e")
		}
		return rapid.Uint64().Draw(t, "u64")
	})
}

func genBytes(min, max int) *rapid.Generator[[]byte] {
	return rapid.Custom(func(t *rapid.T) []byte {
		if rapid.IntRange(0, 19).Draw(t, "bigblob") == 0 {
			// binary data of a size at a buffer boundary (what an encoder might
			// write in pieces): a seeded pattern instead of drawn bytes
			n := rapid.SampledFrom([]int{255, 256, 257, 1023, 1024, 1025, 3071, 3072, 3073, 4095, 4096, 4097, 4098, 8191, 8192, 8193, 12289, 65537}).Draw(t, "blobsize")
			k := byte(rapid.IntRange(1, 250).Draw(t, "blobseed"))
			b := make([]byte, n)
			for i := range b {
				b[i] = byte(i)*k + byte(i>>8)
			}
			return b
		}
		n := rapid.IntRange(min, max).Draw(t, "nbytes")
		b := make([]byte, n)
		for i := range b {
			b[i] = rapid.Byte().Draw(t, "b")
		}
		return b
	})
}

// ---------------------------------------------------------------- diffs

type differ struct{ parts []string }

func (d *differ) str(field, a, b string) {
	if a != b {
		d.parts = append(d.parts, fmt.Sprintf("%s: %q became %q", field, a, b))
	}
}
func (d *differ) val(field string, a, b any) {
	if a != b {
		d.parts = append(d.parts, fmt.Sprintf("%s: %v became %v", field, a, b))
	}
}
func (d *differ) jid(field string, a, b jid.JID) {
	if !a.Equal(b) {
		d.parts = append(d.parts, fmt.Sprintf("%s: %q became %q", field, a.String(), b.String()))
	}
}

// instant compares points in time (zone representation is free).
func (d *differ) instant(field string, a, b time.Time) {
	if !a.Equal(b) {
		d.parts = append(d.parts, fmt.Sprintf("%s: %s became %s", field, a.Format(time.RFC3339Nano), b.Format(time.RFC3339Nano)))
	}
}
func (d *differ) strs(field string, a, b []string) {
	if len(a) != len(b) {
		d.parts = append(d.parts, fmt.Sprintf("%s: %q became %q", field, a, b))
		return
	}
	for i := range a {
		if a[i] != b[i] {
			d.parts = append(d.parts, fmt.Sprintf("%s: %q became %q", field, a, b))
			return
		}
	}
}
func (d *differ) bytes(field string, a, b []byte) {
	if string(a) != string(b) {
		d.parts = append(d.parts, fmt.Sprintf("%s: %q became %q", field, a, b))
	}
}
func (d *differ) add(s string) {
	if s != "" {
		d.parts = append(d.parts, s)
	}
}
func (d *differ) String() string { return strings.Join(d.parts, "; ") }

var xmlChars = &unicode.RangeTable{
	R16: []unicode.Range16{{Lo: 0x20, Hi: 0xD7FF, Stride: 1}, {Lo: 0xE000, Hi: 0xFFFD, Stride: 1}},
	R32: []unicode.Range32{{Lo: 0x10000, Hi: 0x10FFFF, Stride: 1}},
}

// listLen draws the length of a generated list: usually 0..max, one time in
// forty a length at which caches, pools and size classes are typically
// bounded (lists of dozens or hundreds of entries are legal everywhere).
func listLen(t *rapid.T, label string, max int) int {
	if rapid.IntRange(0, 39).Draw(t, label+"Long") == 0 {
		// (lists nested inside other lists stay shorter: the product is what costs)
		long := map[string][]int{"ngroups": {9, 17}, "nkids": {9, 17, 33}, "nopts": {9, 17, 33}, "nstrings": {9, 17, 65}, "njids": {9, 17, 65}}[label]
		if long == nil {
			long = []int{9, 17, 33, 65}
		}
		return rapid.SampledFrom(long).Draw(t, label+"N")
	}
	return rapid.IntRange(0, max).Draw(t, label)
}
