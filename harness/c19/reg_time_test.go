package c19

import (
	"encoding/xml"
	"fmt"
	"time"

	"pgregory.net/rapid"

	"mellium.im/xmpp/delay"
	"mellium.im/xmpp/forward"
	"mellium.im/xmpp/paging"
	"mellium.im/xmpp/stanza"
	"mellium.im/xmpp/xtime"
)

func u64p(t *rapid.T, label string) *uint64 {
	if rapid.Bool().Draw(t, label+"Set") {
		v := genU64().Draw(t, label)
		return &v
	}
	return nil
}

func eqU64p(d *differ, field string, a, b *uint64) {
	switch {
	case a == nil && b == nil:
	case a == nil || b == nil:
		d.add(fmt.Sprintf("%s: presence changed (%v became %v)", field, a != nil, b != nil))
	case *a != *b:
		d.add(fmt.Sprintf("%s: %d became %d", field, *a, *b))
	}
}

func genSet(t *rapid.T) paging.Set {
	var s paging.Set
	s.First.ID = genText().Draw(t, "first")
	s.First.Index = u64p(t, "index")
	s.Last = genText().Draw(t, "last")
	s.Count = u64p(t, "count")
	return s
}

func eqSet(p string, a, b paging.Set) string {
	var d differ
	d.str(p+"first", a.First.ID, b.First.ID)
	eqU64p(&d, p+"first.index", a.First.Index, b.First.Index)
	d.str(p+"last", a.Last, b.Last)
	eqU64p(&d, p+"count", a.Count, b.Count)
	return d.String()
}

func genDelay(t *rapid.T) delay.Delay {
	tm := genTimez().Draw(t, "stamp")
	if !tm.IsZero() && rapid.IntRange(0, 4).Draw(t, "lmt") == 0 {
		// the same instant in a zone whose offset is not a whole number of
		// minutes (local mean time of the tz database: Amsterdam before 1937 is
		// +00:19:32); the stamp is written in UTC, so the instant survives
		tm = tm.In(time.FixedZone("LMT", rapid.SampledFrom([]int{19*60 + 32, -(4*3600 + 56*60 + 2), 1, -59, 5*3600 + 53*60 + 28}).Draw(t, "offSec")))
	}
	return delay.Delay{
		From:   genJIDz().Draw(t, "from"),
		Time:   tm,
		Reason: genOpt().Draw(t, "reason"),
	}
}

func eqDelay(p string, a, b delay.Delay) string {
	var d differ
	d.jid(p+"from", a.From, b.From)
	d.instant(p+"stamp", a.Time, b.Time)
	d.str(p+"reason", a.Reason, b.Reason)
	return d.String()
}

func subSecond(ts ...time.Time) []string {
	var cl []string
	for _, t := range ts {
		if t.Nanosecond() != 0 {
			cl = append(cl, "sub-second-time")
		}
		if _, off := t.Zone(); off != 0 {
			cl = append(cl, "non-utc-zone")
		}
	}
	return cl
}

func init() {
	add(spec[paging.RequestCount]{
		name:       "paging.RequestCount",
		gen:        func(t *rapid.T) paging.RequestCount { return paging.RequestCount{} },
		nontrivial: func(paging.RequestCount) bool { return true }, // the type has a single value
		// no decoder of its own: struct tags would read nothing back
	})
	add(spec[paging.RequestNext]{
		name: "paging.RequestNext",
		gen: func(t *rapid.T) paging.RequestNext {
			return paging.RequestNext{Max: genU64().Draw(t, "max"), After: genOpt().Draw(t, "after")}
		},
		eq: func(a, b paging.RequestNext) string {
			var d differ
			d.val("max", a.Max, b.Max)
			d.str("after", a.After, b.After)
			return d.String()
		},
	})
	add(spec[paging.RequestPrev]{
		name: "paging.RequestPrev",
		gen: func(t *rapid.T) paging.RequestPrev {
			return paging.RequestPrev{Max: genU64().Draw(t, "max"), Before: genOpt().Draw(t, "before")}
		},
		eq: func(a, b paging.RequestPrev) string {
			var d differ
			d.val("max", a.Max, b.Max)
			d.str("before", a.Before, b.Before)
			return d.String()
		},
	})
	add(spec[paging.RequestIndex]{
		name: "paging.RequestIndex",
		gen: func(t *rapid.T) paging.RequestIndex {
			return paging.RequestIndex{Max: genU64().Draw(t, "max"), Index: genU64().Draw(t, "index")}
		},
		eq: func(a, b paging.RequestIndex) string {
			var d differ
			d.val("max", a.Max, b.Max)
			d.val("index", a.Index, b.Index)
			return d.String()
		},
	})
	add(spec[paging.Set]{
		name: "paging.Set",
		gen:  genSet,
		eq:   func(a, b paging.Set) string { return eqSet("", a, b) },
		seeds: []string{
			`<set xmlns="http://jabber.org/protocol/rsm"><first index="0">a</first><last>b</last><count>800</count><max>10</max><after>x</after><before/><index>7</index></set>`,
		},
	})
	add(spec[delay.Delay]{
		name: "delay.Delay", byValue: true,
		gen:     genDelay,
		eq:      func(a, b delay.Delay) string { return eqDelay("", a, b) },
		classes: func(v delay.Delay) []string { return subSecond(v.Time) },
		seeds: []string{
			`<delay xmlns="urn:xmpp:delay" from="a@b/c" stamp="2002-09-10T23:08:25.5Z">Offline <b/> storage</delay>`,
			`<delay xmlns="urn:xmpp:delay" stamp="20020910T23:08:25"/>`,
		},
	})
	add(spec[stanza.Delay]{
		name: "stanza.Delay", byValue: true,
		gen: func(t *rapid.T) stanza.Delay {
			return stanza.Delay{
				From:   genJIDz().Draw(t, "from"),
				Stamp:  genTimez().Draw(t, "stamp"),
				Reason: genOpt().Draw(t, "reason"),
			}
		},
		eq: func(a, b stanza.Delay) string {
			var d differ
			d.jid("from", a.From, b.From)
			d.instant("stamp", a.Stamp, b.Stamp)
			d.str("reason", a.Reason, b.Reason)
			return d.String()
		},
		// stanza/delay_test.go marks the value without a sender NoUnmarshal
		// (it is written as from="" which the decoder refuses).
		oneWay: func(v stanza.Delay) string {
			if v.From.String() == "" {
				return "zero-from"
			}
			return ""
		},
		classes: func(v stanza.Delay) []string { return subSecond(v.Stamp) },
		seeds: []string{
			`<delay xmlns="urn:xmpp:delay" from="a@b/c" stamp="2002-09-10T23:08:25.5Z">Offline <b/> storage</delay>`,
			`<delay xmlns="urn:xmpp:delay" from="a@b/c" stamp="2002-09-10T23:08:25Z"><x><y/></x></delay>`,
		},
	})
	add(spec[stanza.ID]{
		name: "stanza.ID", byValue: true,
		gen: func(t *rapid.T) stanza.ID {
			return stanza.ID{ID: genText().Draw(t, "id"), By: genJIDz().Draw(t, "by")}
		},
		eq: func(a, b stanza.ID) string {
			var d differ
			d.str("id", a.ID, b.ID)
			d.jid("by", a.By, b.By)
			return d.String()
		},
	})
	add(spec[stanza.OriginID]{
		name: "stanza.OriginID", byValue: true,
		gen: func(t *rapid.T) stanza.OriginID { return stanza.OriginID{ID: genText().Draw(t, "id")} },
		eq: func(a, b stanza.OriginID) string {
			var d differ
			d.str("id", a.ID, b.ID)
			return d.String()
		},
		nontrivial: func(v stanza.OriginID) bool { return hasSpecial(v.ID) },
	})
	add(spec[xtime.Time]{
		name: "xtime.Time", byValue: true,
		gen: func(t *rapid.T) xtime.Time { return xtime.Time{Time: genTimez().Draw(t, "time")} },
		eq: func(a, b xtime.Time) string {
			var d differ
			d.instant("time", a.Time, b.Time)
			_, oa := a.Time.Zone()
			_, ob := b.Time.Zone()
			d.val("zone offset (tzo)", oa, ob)
			return d.String()
		},
		// no text at all: a sub-second instant or a zone other than UTC
		nontrivial: func(v xtime.Time) bool {
			_, off := v.Time.Zone()
			return v.Time.Nanosecond() != 0 || off != 0
		},
		classes: func(v xtime.Time) []string { return subSecond(v.Time) },
		seeds: []string{
			`<time xmlns="urn:xmpp:time"><tzo>-06:00</tzo><utc>2006-12-19T17:58:35Z</utc></time>`,
			`<time xmlns="urn:xmpp:time"><tzo>+25:99</tzo><utc>2006-12-19T17:58:35.123456789123Z</utc></time>`,
		},
	})
	add(spec[forward.Forwarded]{
		name: "forward.Forwarded", byValue: true,
		gen: func(t *rapid.T) forward.Forwarded { return forward.Forwarded{Delay: genDelay(t)} },
		eq:  func(a, b forward.Forwarded) string { return eqDelay("delay.", a.Delay, b.Delay) },
		classes: func(v forward.Forwarded) []string {
			return subSecond(v.Delay.Time)
		},
		seeds: []string{
			`<forwarded xmlns="urn:xmpp:forward:0"><delay xmlns="urn:xmpp:delay" stamp="2010-07-10T23:08:25Z"/><message xmlns="jabber:client" to="a@b"><body>x</body></message></forwarded>`,
		},
	})
	_ = xml.Name{}
}
