package c19

import (
	"bytes"
	"encoding/xml"
	"fmt"
	"io"
	"strings"

	"pgregory.net/rapid"

	"mellium.im/xmlstream"
	"mellium.im/xmpp/blocklist"
	"mellium.im/xmpp/bookmarks"
	"mellium.im/xmpp/carbons"
	"mellium.im/xmpp/delay"
	"mellium.im/xmpp/forward"
	"mellium.im/xmpp/receipts"
	"mellium.im/xmpp/roster"
	"mellium.im/xmpp/stanza"
)

// ------------------------------------------------------------ XML trees

// xnode is a small generated XML tree used as opaque payload (forwarded
// stanzas, bookmark extensions).
type xnode struct {
	Space, Local string
	Attrs        []xml.Attr
	Kids         []xnode
	Text         string // text node when Local == ""
}

var (
	treeLocals = []string{"message", "body", "x", "item", "ext", "a", "delay"}
	treeSpaces = []string{"", "", "jabber:client", "urn:example:a", "urn:example:b", "urn:xmpp:delay"}
)

func genTree(t *rapid.T, depth int, topSpace string) xnode {
	n := xnode{Local: rapid.SampledFrom(treeLocals).Draw(t, "local"), Space: topSpace}
	if topSpace == "" {
		n.Space = rapid.SampledFrom(treeSpaces).Draw(t, "space")
	}
	for i, k := 0, rapid.IntRange(0, 2).Draw(t, "nattr"); i < k; i++ {
		n.Attrs = append(n.Attrs, xml.Attr{
			Name:  xml.Name{Local: []string{"id", "to", "stamp"}[i]},
			Value: genText().Draw(t, "attrval"),
		})
	}
	if depth < 3 {
		for i, k := 0, listLen(t, "nkids", 3); i < k; i++ {
			if rapid.Bool().Draw(t, "textKid") {
				if s := genTextNE().Draw(t, "text"); len(n.Kids) == 0 || n.Kids[len(n.Kids)-1].Local != "" {
					n.Kids = append(n.Kids, xnode{Text: s})
				}
			} else {
				n.Kids = append(n.Kids, genTree(t, depth+1, ""))
			}
		}
	}
	return n
}

func (n xnode) appendTokens(toks []xml.Token) []xml.Token {
	if n.Local == "" {
		return append(toks, xml.CharData(n.Text))
	}
	start := xml.StartElement{Name: xml.Name{Space: n.Space, Local: n.Local}, Attr: n.Attrs}
	toks = append(toks, start)
	for _, k := range n.Kids {
		toks = k.appendTokens(toks)
	}
	return append(toks, start.End())
}

type sliceReader struct {
	toks []xml.Token
}

func (r *sliceReader) Token() (xml.Token, error) {
	if len(r.toks) == 0 {
		return nil, io.EOF
	}
	t := r.toks[0]
	r.toks = r.toks[1:]
	return xml.CopyToken(t), nil
}

func (n xnode) reader() xml.TokenReader { return &sliceReader{toks: n.appendTokens(nil)} }

func forestBytes(ns []xnode) []byte {
	var toks []xml.Token
	for _, n := range ns {
		toks = n.appendTokens(toks)
	}
	b, err := encodeTokens(&sliceReader{toks: toks})
	if err != nil {
		panic(err)
	}
	return b
}

// canonIn renders tokens as they read inside an element of namespace space.
func canonIn(space string, r xml.TokenReader) (string, error) {
	c, err := canonFromTokens(xmlstream.Wrap(r, xml.StartElement{Name: xml.Name{Space: space, Local: "w"}}))
	return c.String(), err
}

func canonBytesIn(space string, b []byte) (string, error) {
	var buf bytes.Buffer
	buf.WriteString(`<w xmlns="`)
	xml.EscapeText(&buf, []byte(space))
	buf.WriteString(`">`)
	buf.Write(b)
	buf.WriteString(`</w>`)
	c, err := canonFromBytes(buf.Bytes())
	return c.String(), err
}

// ------------------------------------------------- forwarding and carbons

// wrapCase exercises the function-style APIs forward.Forwarded.Wrap /
// forward.Unwrap and carbons.WrapSent / WrapReceived / Unwrap.
type wrapCase struct {
	Kind  string // "forward", "sent", "received"
	Delay delay.Delay
	Inner xnode
	// set on decoding only
	innerCanon string
	decoded    bool
}

func (c wrapCase) TokenReader() xml.TokenReader {
	switch c.Kind {
	case "sent":
		return carbons.WrapSent(c.Delay, c.Inner.reader())
	case "received":
		return carbons.WrapReceived(c.Delay, c.Inner.reader())
	}
	return forward.Forwarded{Delay: c.Delay}.Wrap(c.Inner.reader())
}

func decodeWrap(data []byte) (wrapCase, error) {
	var out wrapCase
	out.decoded = true
	d := xml.NewDecoder(bytes.NewReader(data))
	// find the kind from the first token without consuming it for Unwrap
	probe := xml.NewDecoder(bytes.NewReader(data))
	tok, err := probe.Token()
	if err != nil {
		return out, err
	}
	start, ok := tok.(xml.StartElement)
	if !ok {
		return out, fmt.Errorf("no start element")
	}
	var inner xml.TokenReader
	if start.Name.Space == carbons.NS {
		var se xml.StartElement
		inner, se, err = carbons.Unwrap(&out.Delay, d)
		out.Kind = se.Name.Local
	} else {
		out.Kind = "forward"
		inner, err = forward.Unwrap(&out.Delay, d)
	}
	if err != nil {
		return out, err
	}
	out.innerCanon, err = canonIn(forward.NS, inner)
	return out, err
}

func (c wrapCase) canonInner() string {
	if c.decoded {
		return c.innerCanon
	}
	s, err := canonIn(forward.NS, c.Inner.reader())
	if err != nil {
		panic(err)
	}
	return s
}

// ------------------------------------------------------------ generators

func genIQ(t *rapid.T) stanza.IQ {
	iq := stanza.IQ{
		ID:   genOpt().Draw(t, "id"),
		To:   genJIDz().Draw(t, "to"),
		From: genJIDz().Draw(t, "from"),
		Lang: rapid.SampledFrom([]string{"", "", "en", "x-<&>"}).Draw(t, "lang"),
		Type: rapid.SampledFrom([]stanza.IQType{stanza.GetIQ, stanza.SetIQ, stanza.ResultIQ, stanza.ErrorIQ}).Draw(t, "iqtype"),
	}
	switch rapid.IntRange(0, 2).Draw(t, "iqns") {
	case 1:
		iq.XMLName = xml.Name{Space: stanza.NSClient, Local: "iq"}
	case 2:
		iq.XMLName = xml.Name{Space: stanza.NSServer, Local: "iq"}
	}
	return iq
}

func eqIQ(d *differ, a, b stanza.IQ) {
	d.str("iq.id", a.ID, b.ID)
	d.jid("iq.to", a.To, b.To)
	d.jid("iq.from", a.From, b.From)
	d.str("iq.lang", a.Lang, b.Lang)
	d.str("iq.type", string(a.Type), string(b.Type))
	// The envelope's namespace is not recorded by encoding/xml for an embedded
	// stanza.IQ (its XMLName is not the outer struct's XMLName); stanza
	// envelopes are the subject of C13, not of this property.
}

func genRosterItem(t *rapid.T) roster.Item {
	it := roster.Item{
		JID:          genJIDz().Draw(t, "jid"),
		Name:         genOpt().Draw(t, "name"),
		Subscription: rapid.SampledFrom([]string{"", "none", "to", "from", "both", "remove", "<&>"}).Draw(t, "sub"),
	}
	for n := listLen(t, "ngroups", 3); n > 0; n-- {
		it.Group = append(it.Group, genText().Draw(t, "group"))
	}
	return it
}

func eqRosterItem(p string, a, b roster.Item) string {
	var d differ
	d.jid(p+"jid", a.JID, b.JID)
	d.str(p+"name", a.Name, b.Name)
	d.str(p+"subscription", a.Subscription, b.Subscription)
	d.strs(p+"group", a.Group, b.Group)
	return d.String()
}

func init() {
	add(spec[wrapCase]{
		name: "forward+carbons.Wrap", noMarshal: true, noFixedPoint: true,
		gen: func(t *rapid.T) wrapCase {
			return wrapCase{
				Kind:  rapid.SampledFrom([]string{"forward", "sent", "received"}).Draw(t, "kind"),
				Delay: genDelay(t),
				Inner: genTree(t, 0, rapid.SampledFrom([]string{stanza.NSClient, stanza.NSServer, "urn:example:a"}).Draw(t, "topns")),
			}
		},
		decode: decodeWrap,
		eq: func(a, b wrapCase) string {
			var d differ
			d.str("kind", a.Kind, b.Kind)
			d.add(eqDelay("delay.", a.Delay, b.Delay))
			d.str("forwarded payload", a.canonInner(), b.canonInner())
			return d.String()
		},
		classes: func(v wrapCase) []string { return append(subSecond(v.Delay.Time), "kind:"+v.Kind) },
	})
	add(spec[receipts.Requested]{
		name: "receipts.Requested", byValue: true,
		gen:        func(t *rapid.T) receipts.Requested { return receipts.Requested(rapid.Bool().Draw(t, "requested")) },
		eq:         func(a, b receipts.Requested) string { var d differ; d.val("requested", a, b); return d.String() },
		emptyOK:    func(v receipts.Requested) bool { return !bool(v) },
		nontrivial: func(v receipts.Requested) bool { return bool(v) },
		seeds:      []string{`<request xmlns="urn:xmpp:receipts"/>`, `<received xmlns="urn:xmpp:receipts" id="x"/>`},
	})
	add(spec[roster.Item]{
		name: "roster.Item", byValue: true,
		gen: genRosterItem,
		eq:  func(a, b roster.Item) string { return eqRosterItem("", a, b) },
		seeds: []string{
			`<item xmlns="jabber:iq:roster" jid="a@b" name="n" subscription="both" ask="subscribe"><group>g</group><group/></item>`,
		},
	})
	add(spec[roster.IQ]{
		name: "roster.IQ", byValue: true,
		gen: func(t *rapid.T) roster.IQ {
			var iq roster.IQ
			iq.IQ = genIQ(t)
			iq.Query.Ver = genOpt().Draw(t, "ver")
			for n := listLen(t, "nitems", 3); n > 0; n-- {
				iq.Query.Item = append(iq.Query.Item, genRosterItem(t))
			}
			return iq
		},
		eq: func(a, b roster.IQ) string {
			var d differ
			eqIQ(&d, a.IQ, b.IQ)
			d.str("ver", a.Query.Ver, b.Query.Ver)
			if len(a.Query.Item) != len(b.Query.Item) {
				d.add(fmt.Sprintf("items: %d became %d", len(a.Query.Item), len(b.Query.Item)))
				return d.String()
			}
			for i := range a.Query.Item {
				d.add(eqRosterItem(fmt.Sprintf("item[%d].", i), a.Query.Item[i], b.Query.Item[i]))
			}
			return d.String()
		},
		seeds: []string{
			`<iq xmlns="jabber:client" type="result" id="1"><query xmlns="jabber:iq:roster" ver="v"><item jid="a@b"><group>g</group></item><item jid="@"/></query></iq>`,
		},
	})
	add(spec[blocklist.Item]{
		name: "blocklist.Item",
		gen: func(t *rapid.T) blocklist.Item {
			it := blocklist.Item{
				JID:    genJIDz().Draw(t, "jid"),
				Reason: rapid.SampledFrom([]blocklist.ReportReason{"", "", blocklist.ReasonSpam, blocklist.ReasonAbuse, "urn:example:<other>"}).Draw(t, "reason"),
				Text:   genOpt().Draw(t, "text"),
			}
			for n := rapid.SampledFrom([]int{0, 0, 1, 2}).Draw(t, "nids"); n > 0; n-- {
				it.StanzaIDs = append(it.StanzaIDs, stanza.ID{ID: genText().Draw(t, "sid"), By: genJIDz().Draw(t, "by")})
			}
			return it
		},
		eq: func(a, b blocklist.Item) string {
			var d differ
			d.jid("jid", a.JID, b.JID)
			want := a.Reason
			if want == "" && (len(a.StanzaIDs) > 0 || a.Text != "") {
				want = blocklist.ReasonSpam // a report without a reason is sent as spam
			}
			d.str("reason", string(want), string(b.Reason))
			d.str("text", a.Text, b.Text)
			if len(a.StanzaIDs) != len(b.StanzaIDs) {
				d.add(fmt.Sprintf("stanza ids: %d became %d", len(a.StanzaIDs), len(b.StanzaIDs)))
				return d.String()
			}
			for i := range a.StanzaIDs {
				d.str(fmt.Sprintf("stanza-id[%d].id", i), a.StanzaIDs[i].ID, b.StanzaIDs[i].ID)
				d.jid(fmt.Sprintf("stanza-id[%d].by", i), a.StanzaIDs[i].By, b.StanzaIDs[i].By)
			}
			return d.String()
		},
		seeds: []string{
			`<item xmlns="urn:xmpp:blocking" jid="a@b"><report xmlns="urn:xmpp:reporting:1" reason="urn:xmpp:reporting:spam"><stanza-id xmlns="urn:xmpp:sid:0" by="a@b" id="i"/><text>t</text></report></item>`,
		},
	})
	add(spec[bookmarks.Channel]{
		name: "bookmarks.Channel", byValue: true,
		gen: func(t *rapid.T) bookmarks.Channel {
			c := bookmarks.Channel{
				JID:      genJIDz().Draw(t, "jid"),
				Autojoin: rapid.Bool().Draw(t, "autojoin"),
				Name:     genOpt().Draw(t, "name"),
				Nick:     genOpt().Draw(t, "nick"),
				Password: genOpt().Draw(t, "password"),
			}
			var ext []xnode
			for n := rapid.SampledFrom([]int{0, 0, 1, 2}).Draw(t, "next"); n > 0; n-- {
				ext = append(ext, genTree(t, 1, rapid.SampledFrom([]string{"urn:example:a", "urn:example:b"}).Draw(t, "extns")))
			}
			if len(ext) > 0 {
				c.Extensions = forestBytes(ext)
			}
			return c
		},
		eq: func(a, b bookmarks.Channel) string {
			var d differ
			// the address is the pubsub item id, not part of the payload
			d.val("autojoin", a.Autojoin, b.Autojoin)
			d.str("name", a.Name, b.Name)
			d.str("nick", a.Nick, b.Nick)
			d.str("password", a.Password, b.Password)
			ca, err := canonBytesIn(bookmarks.NS, a.Extensions)
			if err != nil {
				panic(err)
			}
			cb, err := canonBytesIn(bookmarks.NS, b.Extensions)
			if err != nil {
				return fmt.Sprintf("decoded extensions are not well-formed: %v (%q)", err, b.Extensions)
			}
			d.str("extensions", ca, cb)
			return d.String()
		},
		classes: func(v bookmarks.Channel) []string {
			if len(v.Extensions) > 0 {
				return []string{"with-extensions"}
			}
			return nil
		},
		seeds: []string{
			`<conference xmlns="urn:xmpp:bookmarks:1" name="n" autojoin="1"><nick>n</nick><password>p</password><extensions><a xmlns="urn:x"><b/></a>text</extensions></conference>`,
			`<conference xmlns="urn:xmpp:bookmarks:1" autojoin="maybe"/>`,
		},
	})
	_ = strings.TrimSpace
}
