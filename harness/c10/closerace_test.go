package c10

// The application closes the session at the very moment the peer ends its
// stream (Serve's own shutdown marks the input closed and then closes the
// session as well).  However the two interleave: exactly one closing tag is
// written, both directions end up marked closed, and nothing can be sent after
// it.  The schedule is what varies, so the same tiny history is repeated many
// times with a swept delay between the peer's end of stream and the Close.

import (
	"bytes"
	"context"
	"encoding/xml"
	"fmt"
	"runtime"
	"sync"
	"testing"
	"time"

	"mellium.im/xmlstream"

	"mellium.im/xmpp"
	"mellium.im/xmpp/stanza"
	"mellium.im/xmpp/verifharness/internal/ev"
	"mellium.im/xmpp/verifharness/internal/wire"
	"mellium.im/xmpp/verifharness/internal/xt"
)

func TestC10CloseAtServeEnd(t *testing.T) {
	ev.Begin(t)
	n := ev.N(30000, 300000)
	closing := []byte("</stream:stream>")
	for i := 0; i < n; i++ {
		peerEnds := []string{"eof", "closing-tag"}[i%2]
		spins := (i / 2) % 600
		sv, err := wire.NewServed(wire.SessionOpts{})
		if err != nil {
			t.Fatalf("harness: %v", err)
		}
		ev.Case(true, fmt.Sprintf("close-at-serve-end peer=%s spins=%d", peerEnds, spins), "close-while-serve-ends", "peer-ends-with-"+peerEnds)
		sv.Start(nil)
		var wg sync.WaitGroup
		var closeErr error
		var closePanic string
		release := make(chan struct{})
		wg.Add(1)
		go func() {
			defer wg.Done()
			<-release
			for k := spins; k > 0; k-- {
				runtime.KeepAlive(k)
			}
			closePanic = ev.Guard(func() { closeErr = sv.Session.Close() })
		}()
		runtime.Gosched()
		close(release)
		if peerEnds == "eof" {
			sv.Conn.CloseInput()
		} else {
			sv.Feed("</stream:stream>")
		}
		if !sv.Wait(waitLong) {
			buf := make([]byte, 1<<18)
			buf = buf[:runtime.Stack(buf, true)]
			ev.Failf(t, "iteration %d (peer ends with %s, Close %d spins later): Serve had not returned after %v\n%s", i, peerEnds, spins, waitLong, buf)
		}
		wg.Wait()
		what := fmt.Sprintf("iteration %d: the peer ends its stream (%s) while the application calls Close (%d spins later)", i, peerEnds, spins)
		if p := sv.Panic(); p != "" {
			ev.Failf(t, "%s: %s", what, p)
		}
		if closePanic != "" {
			ev.Failf(t, "%s: Close panicked: %s", what, closePanic)
		}
		// (a connection that simply ends makes Serve report the truncated stream)
		if (peerEnds == "closing-tag" && sv.Err() != nil) || closeErr != nil {
			ev.Failf(t, "%s: Serve returned %v, Close returned %v", what, sv.Err(), closeErr)
		}
		out := sv.Conn.Output()
		if c := bytes.Count(out, closing); c != 1 {
			ev.Failf(t, "%s: %d closing tags on the wire, want exactly one\noutput: %q", what, c, out)
		}
		if st := sv.Session.State(); st&xmpp.OutputStreamClosed == 0 || st&xmpp.InputStreamClosed == 0 {
			ev.Failf(t, "%s: afterwards the session state is %v: both directions must be marked closed", what, st)
		}
		serr := sv.Session.Send(context.Background(), stanza.Message{Type: stanza.ChatMessage}.Wrap(nil))
		if serr != xmpp.ErrOutputStreamClosed {
			ev.Failf(t, "%s: a Send afterwards returned %v, want %v", what, serr, xmpp.ErrOutputStreamClosed)
		}
		if after := sv.Conn.Output(); !bytes.Equal(after, out) {
			ev.Failf(t, "%s: a Send afterwards put %q on the wire after the closing tag", what, after[len(out):])
		}
		sv.Conn.Close()
	}
}

// TestC10ServeEndsWithErrorOffTheReadPath: Serve ends with an error that does
// not come out of a read — the close deadline passes while a handler is still
// busy with an element it has consumed (the loop notices the ended context
// between two elements), or the stream error for a failed input cannot be
// written because an earlier transmit call hit a transport write error.
// However Serve ends, afterwards both directions are marked closed and a
// transmit call fails with ErrOutputStreamClosed without writing anything.
func TestC10ServeEndsWithErrorOffTheReadPath(t *testing.T) {
	ev.Begin(t)
	n := ev.N(30, 300)
	for i := 0; i < n; i++ {
		variant := []string{"deadline-while-handler-busy", "write-error-then-input-fails", "deadline-while-response-half-delivered"}[i%3]
		sv, err := wire.NewServed(wire.SessionOpts{})
		if err != nil {
			t.Fatalf("harness: %v", err)
		}
		ev.Case(true, fmt.Sprintf("serve-error-off-read-path %s %d", variant, i%7), "serve-ends-with-error-off-the-read-path", variant)
		d := time.Duration(3+i%5) * time.Millisecond
		t0 := time.Now()
		switch variant {
		case "deadline-while-handler-busy":
			busy := make(chan struct{})
			sv.Start(xmpp.HandlerFunc(func(tr xmlstream.TokenReadEncoder, start *xml.StartElement) error {
				select {
				case <-busy:
				default:
					close(busy)
					// still busy when the deadline passes
					time.Sleep(time.Until(t0.Add(d + 3*time.Millisecond)))
				}
				return nil
			}))
			if err := sv.Session.SetCloseDeadline(t0.Add(d)); err != nil {
				t.Fatalf("harness: SetCloseDeadline: %v", err)
			}
			sv.Feed(`<message xmlns="jabber:client" id="m1"/><message xmlns="jabber:client" id="m2"/>`)
		case "deadline-while-response-half-delivered":
			// a request helper is reading the answer to its request, of which the
			// peer has only delivered the beginning, when the close deadline
			// passes: the helper sees the timeout and gives up; Serve must end
			sv.Start(nil)
			reqDone := make(chan struct{})
			go func() {
				defer close(reqDone)
				_ = ev.Guard(func() {
					it, _, err := sv.Session.IterIQElement(context.Background(), xt.El("urn:verif:c10", "query", nil).Reader(), stanza.IQ{ID: "half1", Type: stanza.GetIQ})
					if err != nil {
						return
					}
					for it.Next() {
						start, r := it.Current()
						_ = start
						if r != nil {
							for {
								if _, err := r.Token(); err != nil {
									break
								}
							}
						}
					}
					_ = it.Close()
				})
			}()
			if !sv.WaitFor(func(els []*xt.Node) bool {
				for _, e := range els {
					if id, _ := e.Get("id"); id == "half1" {
						return true
					}
				}
				return false
			}, 5*time.Second) {
				t.Fatalf("harness: the request never reached the wire")
			}
			half := `<iq xmlns="jabber:client" type="result" id="half1"><query xmlns="urn:verif:c10"><item n="1"/>`
			if i%2 == 0 {
				half += `<item n="2"><sub`
			}
			sv.Feed(half)
			time.Sleep(time.Duration(i%3) * time.Millisecond)
			t0 = time.Now()
			if err := sv.Session.SetCloseDeadline(t0.Add(d)); err != nil {
				t.Fatalf("harness: SetCloseDeadline: %v", err)
			}
			if i%4 < 2 {
				go sv.Session.Close()
			}
			select {
			case <-reqDone:
			case <-time.After(waitLong):
				buf := make([]byte, 1<<18)
				buf = buf[:runtime.Stack(buf, true)]
				ev.Failf(t, "iteration %d (%s): the request helper had not returned %v after the close deadline passed\n%s", i, variant, waitLong, buf)
			}
		default:
			sv.Start(nil)
			failing := true
			sv.Conn.BeforeWrite = func(int, []byte) error {
				if failing {
					return wire.ErrInjected
				}
				return nil
			}
			if serr := sv.Session.Send(context.Background(), stanza.Message{Type: stanza.ChatMessage}.Wrap(nil)); serr == nil {
				t.Fatalf("harness: the Send over a failing transport succeeded")
			}
			failing = i%4 < 2 // the transport may or may not have recovered
			sv.Feed(`<!-- not allowed on a stream -->`)
		}
		what := fmt.Sprintf("iteration %d (%s)", i, variant)
		if !sv.Wait(waitLong) {
			buf := make([]byte, 1<<18)
			buf = buf[:runtime.Stack(buf, true)]
			ev.Failf(t, "%s: Serve had not returned after %v\n%s", what, waitLong, buf)
		}
		if p := sv.Panic(); p != "" {
			ev.Failf(t, "%s: %s", what, p)
		}
		if sv.Err() == nil {
			ev.Failf(t, "%s: Serve returned nil", what)
		}
		sv.Conn.BeforeWrite = nil
		if st := sv.Session.State(); st&xmpp.OutputStreamClosed == 0 || st&xmpp.InputStreamClosed == 0 {
			ev.Failf(t, "%s: Serve returned %v; afterwards the session state is %v: both directions must be marked closed", what, sv.Err(), st)
		}
		before := sv.Conn.OutputLen()
		serr := sv.Session.Send(context.Background(), stanza.Message{Type: stanza.ChatMessage}.Wrap(nil))
		if serr != xmpp.ErrOutputStreamClosed || sv.Conn.OutputLen() != before {
			ev.Failf(t, "%s: Serve returned %v; a Send afterwards returned %v and wrote %d bytes, want %v and nothing written", what, sv.Err(), serr, sv.Conn.OutputLen()-before, xmpp.ErrOutputStreamClosed)
		}
		if variant == "deadline-while-handler-busy" {
			if c := bytes.Count(sv.Conn.Output(), []byte("</stream:stream>")); c != 1 {
				ev.Failf(t, "%s: %d closing tags on the wire after Serve returned %v, want exactly one\noutput: %q", what, c, sv.Err(), sv.Conn.Output())
			}
		}
		sv.Conn.Close()
	}
}
