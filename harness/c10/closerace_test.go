package c10

// The application closes the session at the very moment the peer ends its
// stream (Serve's own shutdown marks the input closed and then closes the
// session as well).  However the two interleave: exactly one closing tag is
// written, both directions end up marked closed, and nothing can be sent after
// it.  The schedule is what varies, so the same tiny history is repeated many
// times with a swept delay between the peer's end of stream and the Close.

import (
	"bytes"
	"context"
	"fmt"
	"runtime"
	"sync"
	"testing"

	"mellium.im/xmpp"
	"mellium.im/xmpp/stanza"
	"mellium.im/xmpp/verifharness/internal/ev"
	"mellium.im/xmpp/verifharness/internal/wire"
)

func TestC10CloseAtServeEnd(t *testing.T) {
	ev.Begin(t)
	n := ev.N(30000, 300000)
	closing := []byte("</stream:stream>")
	for i := 0; i < n; i++ {
		peerEnds := []string{"eof", "closing-tag"}[i%2]
		spins := (i / 2) % 600
		sv, err := wire.NewServed(wire.SessionOpts{})
		if err != nil {
			t.Fatalf("harness: %v", err)
		}
		ev.Case(true, fmt.Sprintf("close-at-serve-end peer=%s spins=%d", peerEnds, spins), "close-while-serve-ends", "peer-ends-with-"+peerEnds)
		sv.Start(nil)
		var wg sync.WaitGroup
		var closeErr error
		var closePanic string
		release := make(chan struct{})
		wg.Add(1)
		go func() {
			defer wg.Done()
			<-release
			for k := spins; k > 0; k-- {
				runtime.KeepAlive(k)
			}
			closePanic = ev.Guard(func() { closeErr = sv.Session.Close() })
		}()
		runtime.Gosched()
		close(release)
		if peerEnds == "eof" {
			sv.Conn.CloseInput()
		} else {
			sv.Feed("</stream:stream>")
		}
		if !sv.Wait(waitLong) {
			buf := make([]byte, 1<<18)
			buf = buf[:runtime.Stack(buf, true)]
			ev.Failf(t, "iteration %d (peer ends with %s, Close %d spins later): Serve had not returned after %v\n%s", i, peerEnds, spins, waitLong, buf)
		}
		wg.Wait()
		what := fmt.Sprintf("iteration %d: the peer ends its stream (%s) while the application calls Close (%d spins later)", i, peerEnds, spins)
		if p := sv.Panic(); p != "" {
			ev.Failf(t, "%s: %s", what, p)
		}
		if closePanic != "" {
			ev.Failf(t, "%s: Close panicked: %s", what, closePanic)
		}
		// (a connection that simply ends makes Serve report the truncated stream)
		if (peerEnds == "closing-tag" && sv.Err() != nil) || closeErr != nil {
			ev.Failf(t, "%s: Serve returned %v, Close returned %v", what, sv.Err(), closeErr)
		}
		out := sv.Conn.Output()
		if c := bytes.Count(out, closing); c != 1 {
			ev.Failf(t, "%s: %d closing tags on the wire, want exactly one\noutput: %q", what, c, out)
		}
		if st := sv.Session.State(); st&xmpp.OutputStreamClosed == 0 || st&xmpp.InputStreamClosed == 0 {
			ev.Failf(t, "%s: afterwards the session state is %v: both directions must be marked closed", what, st)
		}
		serr := sv.Session.Send(context.Background(), stanza.Message{Type: stanza.ChatMessage}.Wrap(nil))
		if serr != xmpp.ErrOutputStreamClosed {
			ev.Failf(t, "%s: a Send afterwards returned %v, want %v", what, serr, xmpp.ErrOutputStreamClosed)
		}
		if after := sv.Conn.Output(); !bytes.Equal(after, out) {
			ev.Failf(t, "%s: a Send afterwards put %q on the wire after the closing tag", what, after[len(out):])
		}
		sv.Conn.Close()
	}
}
