// C10 — Closing is idempotent, final and observable.
package c10

import (
	"bytes"
	"context"
	"encoding/xml"
	"errors"
	"fmt"
	"io"
	"runtime"
	"strconv"
	"strings"
	"sync"
	"sync/atomic"
	"testing"
	"time"

	"pgregory.net/rapid"

	"mellium.im/xmlstream"
	"mellium.im/xmpp"
	"mellium.im/xmpp/stanza"
	"mellium.im/xmpp/stream"
	"mellium.im/xmpp/verifharness/internal/ev"
	"mellium.im/xmpp/verifharness/internal/wire"
	"mellium.im/xmpp/verifharness/internal/xt"
)

func TestMain(m *testing.M) { ev.Main(m, "C10") }

// ---------------------------------------------------------------- case model

type action struct {
	kind  string // close transmit peerclose peererror handlererror handlerreply deadline readfail
	entry string // transmit: entry point
	idx   int    // marker of transmit / handler reply
	big   bool
	// transmit: the call's context ends while the call is in progress (after it
	// has started reading its payload, before anything is written)
	cancelMid bool
	cond      string
	errk      string // handlererror / readfail: shape of the error (plain wrapeof eof wrapunexpected)

	// results
	err      error
	returned bool
	panicked string
}

type tcase struct {
	s2s   bool
	serve bool
	// the transport fails the one write that carries the closing stream tag
	// (the peer has gone, a write deadline expired): the close was requested all
	// the same and is final
	closeWriteFails bool
	// the session runs over a layer a negotiation step installed (a plain
	// io.ReadWriter) on top of the deadline-capable transport
	layered bool
	// "" ready-made; "initiated" / "received": through the default negotiator
	negotiated string
	// negotiated sessions: the XML console is switched on (StreamConfig.TeeOut);
	// "breaks": its writer starts to fail once the session is established
	tee   string
	steps [][]*action // actions of one step run concurrently; steps run one after the other
}

var entries = []string{"Send", "SendElement", "Encode", "EncodeElement", "TokenWriter", "SendIQ", "SendIQElement", "EncodeIQ", "SendMessage", "EncodeMessageElement", "SendPresence", "SendPresenceElement",
	// a value the standard marshaller refuses (nothing is written, the
	// connection is healthy): the call fails and the stream stays open
	"EncodeBad", "EncodeElementBad"}

// entries that wait for the peer's response when they are given a stanza that
// asks for one: used once the session has ended (on an open session they would
// wait for a peer that never answers)
var awaitEntries = []string{"AwaitSendIQ", "AwaitSendIQElement", "AwaitEncodeIQ", "AwaitEncodeIQElement", "AwaitUnmarshalIQ", "AwaitIterIQ", "AwaitSendMessage", "AwaitSendMessageElement", "AwaitEncodeMessage", "AwaitSendPresence", "AwaitSendPresenceElement", "AwaitEncodePresence"}

// entries whose payload is a token reader (the harness can act while it is read)
var readerEntries = map[string]bool{"Send": true, "SendElement": true, "SendIQ": true, "SendIQElement": true, "SendMessage": true, "SendPresence": true, "SendPresenceElement": true}

// cancelReader ends the call's context when the library has read the payload
// to its end, and waits until the library's watcher has acted on that (it expires
// the write deadline and restores it) so that the write itself is untouched.
type cancelReader struct {
	r      xml.TokenReader
	cancel context.CancelFunc
	conn   *wire.Conn
	done   bool
}

func (c *cancelReader) Token() (xml.Token, error) {
	tok, err := c.r.Token()
	if err == io.EOF && !c.done {
		// the whole payload has been handed over, nothing has been flushed yet:
		// every entry point has its context watcher armed by now
		c.done = true
		n := c.conn.WriteDeadlineCalls()
		c.cancel()
		// (bounded generously: on a loaded machine the watcher may run late, and
		// a write it interrupts after all would poison the encoder by design)
		for i := 0; i < 40000 && c.conn.WriteDeadlineCalls() < n+2; i++ {
			time.Sleep(50 * time.Microsecond)
		}
	}
	return tok, err
}

func genCase(t *rapid.T) tcase {
	tc := tcase{s2s: rapid.Bool().Draw(t, "s2s"), serve: rapid.IntRange(0, 3).Draw(t, "serve") > 0}
	tc.closeWriteFails = rapid.IntRange(0, 5).Draw(t, "closeWriteFails") == 0
	tc.layered = rapid.IntRange(0, 3).Draw(t, "layered") == 0
	if !tc.layered && rapid.IntRange(0, 2).Draw(t, "negotiatedSession") == 0 {
		tc.negotiated = rapid.SampledFrom([]string{"initiated", "received"}).Draw(t, "negotiatedRole")
		tc.tee = rapid.SampledFrom([]string{"", "ok", "breaks"}).Draw(t, "tee")
	}
	idx := 0
	ns := rapid.IntRange(1, 6).Draw(t, "nsteps")
	for s := 0; s < ns; s++ {
		var step []*action
		na := rapid.SampledFrom([]int{1, 1, 2, 3, 4}).Draw(t, "nactions")
		for a := 0; a < na; a++ {
			kinds := []string{"close", "close", "transmit", "transmit", "transmit"}
			if tc.serve {
				kinds = append(kinds, "peerclose", "peererror", "handlererror", "handlerreply", "handlerreply", "deadline", "readfail")
			}
			ac := &action{kind: rapid.SampledFrom(kinds).Draw(t, "kind")}
			switch ac.kind {
			case "transmit":
				ac.entry = rapid.SampledFrom(entries).Draw(t, "entry")
				ac.idx = idx
				idx++
				ac.big = rapid.IntRange(0, 4).Draw(t, "big") == 0
				ac.cancelMid = readerEntries[ac.entry] && rapid.IntRange(0, 3).Draw(t, "cancelMid") == 0
			case "handlerreply":
				ac.idx = idx
				idx++
			case "peererror":
				ac.cond = rapid.SampledFrom([]string{"conflict", "system-shutdown", "not-authorized"}).Draw(t, "cond")
			case "handlererror":
				// whatever a failing handler returns (a bare or wrapped io.EOF from
				// reading its element to the end included) is a failure, not the
				// peer's closing tag
				ac.errk = rapid.SampledFrom([]string{"plain", "plain", "wrapeof", "eof", "wrapunexpected"}).Draw(t, "errk")
			case "readfail":
				// the transport fails without the peer having closed its stream
				ac.errk = rapid.SampledFrom([]string{"plain", "wrapeof", "wrapunexpected"}).Draw(t, "errk")
			}
			step = append(step, ac)
		}
		tc.steps = append(tc.steps, step)
	}
	return tc
}

func (tc tcase) String() string {
	var sb strings.Builder
	fmt.Fprintf(&sb, "s2s=%v serve=%v write-of-the-closing-tag-fails=%v transport-layered-by-a-negotiation-step=%v session=%q xml-console=%q steps:", tc.s2s, tc.serve, tc.closeWriteFails, tc.layered, tc.negotiated, tc.tee)
	for i, st := range tc.steps {
		fmt.Fprintf(&sb, "\n  step %d (concurrently):", i)
		for _, a := range st {
			switch a.kind {
			case "transmit":
				fmt.Fprintf(&sb, " %s#%d(big=%v context-ends-mid-call=%v)", a.entry, a.idx, a.big, a.cancelMid)
			case "handlerreply":
				fmt.Fprintf(&sb, " handlerreply#%d", a.idx)
			case "peererror":
				fmt.Fprintf(&sb, " peererror(%s)", a.cond)
			default:
				fmt.Fprintf(&sb, " %s", a.kind)
			}
		}
	}
	return sb.String()
}

func (tc tcase) results() string {
	var sb strings.Builder
	for i, st := range tc.steps {
		for _, a := range st {
			if a.kind == "transmit" || a.kind == "close" {
				fmt.Fprintf(&sb, "\n  step %d %s %s#%d -> returned=%v err=%v", i, a.kind, a.entry, a.idx, a.returned, a.err)
			}
		}
	}
	return sb.String()
}

// ---------------------------------------------------------------- execution

type sval struct {
	XMLName xml.Name
	M       string `xml:"m,attr"`
	ID      string `xml:"id,attr,omitempty"`
	Type    string `xml:"type,attr,omitempty"`
	Text    string `xml:",chardata"`
}

func body(big bool) string {
	if big {
		return strings.Repeat("0123456789abcdef", 1000)
	}
	return "x"
}

func (a *action) transmit(s *xmpp.Session, ns string, conn *wire.Conn) {
	ctx := context.Background()
	rd := func(n *xt.Node) xml.TokenReader { return n.Reader() }
	if a.cancelMid {
		cctx, cancel := context.WithCancel(ctx)
		defer cancel()
		ctx = cctx
		rd = func(n *xt.Node) xml.TokenReader { return &cancelReader{r: n.Reader(), cancel: cancel, conn: conn} }
	}
	if strings.HasPrefix(a.entry, "Await") {
		cctx, cancel := context.WithTimeout(ctx, 3*time.Second)
		defer cancel()
		ctx = cctx
	}
	m := strconv.Itoa(a.idx)
	el := func(local, typ string) *xt.Node {
		n := xt.El(ns, local, []xml.Attr{xt.A("m", m), xt.A("id", "i"+m)}, xt.El("urn:verif:c10", "p", nil, xt.Tx(body(a.big))))
		if typ != "" {
			n.Attr = append(n.Attr, xt.A("type", typ))
		}
		return n
	}
	pay := xt.El("urn:verif:c10", "p", []xml.Attr{xt.A("m", m)}, xt.Tx(body(a.big)))
	a.panicked = ev.Guard(func() {
		var resp xmlstream.TokenReadCloser
		switch a.entry {
		case "Send":
			a.err = s.Send(ctx, rd(xt.El("urn:verif:c10", "e", []xml.Attr{xt.A("m", m)}, xt.Tx(body(a.big)))))
		case "SendElement":
			a.err = s.SendElement(ctx, rd(xt.Tx(body(a.big))), xml.StartElement{Name: xml.Name{Space: "urn:verif:c10", Local: "e"}, Attr: []xml.Attr{xt.A("m", m)}})
		case "Encode":
			a.err = s.Encode(ctx, sval{XMLName: xml.Name{Space: "urn:verif:c10", Local: "e"}, M: m, Text: body(a.big)})
		case "EncodeElement":
			a.err = s.EncodeElement(ctx, sval{XMLName: xml.Name{Space: "urn:verif:c10", Local: "v"}, M: m, Text: body(a.big)}, xml.StartElement{Name: xml.Name{Space: "urn:verif:c10", Local: "e"}})
		case "EncodeBad":
			a.err = s.Encode(ctx, struct {
				XMLName xml.Name `xml:"urn:verif:c10 e"`
				C       chan int
			}{})
		case "EncodeElementBad":
			a.err = s.EncodeElement(ctx, map[string]int{"not": 1}, xml.StartElement{Name: xml.Name{Space: "urn:verif:c10", Local: "e"}})
		case "TokenWriter":
			w := s.TokenWriter()
			_, a.err = xmlstream.Copy(w, xt.El("urn:verif:c10", "e", []xml.Attr{xt.A("m", m)}, xt.Tx(body(a.big))).Reader())
			if e := w.Close(); a.err == nil {
				a.err = e
			}
		case "SendIQ":
			resp, a.err = s.SendIQ(ctx, rd(el("iq", "result")))
		case "SendIQElement":
			resp, a.err = s.SendIQElement(ctx, rd(pay), stanza.IQ{Type: stanza.ErrorIQ, ID: "i" + m})
		case "EncodeIQ":
			resp, a.err = s.EncodeIQ(ctx, sval{XMLName: xml.Name{Space: ns, Local: "iq"}, M: m, ID: "i" + m, Type: "result", Text: body(a.big)})
		case "SendMessage":
			resp, a.err = s.SendMessage(ctx, rd(el("message", "error")))
		case "EncodeMessageElement":
			resp, a.err = s.EncodeMessageElement(ctx, sval{XMLName: xml.Name{Space: "urn:verif:c10", Local: "p"}, M: m, Text: body(a.big)}, stanza.Message{Type: stanza.ErrorMessage, ID: "i" + m})
		case "SendPresence":
			resp, a.err = s.SendPresence(ctx, rd(el("presence", "error")))
		case "SendPresenceElement":
			resp, a.err = s.SendPresenceElement(ctx, rd(pay), stanza.Presence{Type: stanza.ErrorPresence, ID: "i" + m})
		case "AwaitSendIQ":
			resp, a.err = s.SendIQ(ctx, rd(el("iq", "get")))
		case "AwaitSendIQElement":
			resp, a.err = s.SendIQElement(ctx, rd(pay), stanza.IQ{Type: stanza.SetIQ, ID: "i" + m})
		case "AwaitEncodeIQ":
			resp, a.err = s.EncodeIQ(ctx, sval{XMLName: xml.Name{Space: ns, Local: "iq"}, M: m, ID: "i" + m, Type: "set", Text: body(a.big)})
		case "AwaitEncodeIQElement":
			resp, a.err = s.EncodeIQElement(ctx, sval{XMLName: xml.Name{Space: "urn:verif:c10", Local: "p"}, M: m, Text: body(a.big)}, stanza.IQ{Type: stanza.GetIQ, ID: "i" + m})
		case "AwaitUnmarshalIQ":
			var v sval
			a.err = s.UnmarshalIQ(ctx, rd(el("iq", "get")), &v)
		case "AwaitIterIQ":
			var it *xmlstream.Iter
			var st *xml.StartElement
			it, st, a.err = s.IterIQ(ctx, rd(el("iq", "set")))
			if it != nil {
				_ = it.Close()
			}
			_ = st
		case "AwaitSendMessage":
			resp, a.err = s.SendMessage(ctx, rd(el("message", "chat")))
		case "AwaitSendMessageElement":
			resp, a.err = s.SendMessageElement(ctx, rd(pay), stanza.Message{Type: stanza.NormalMessage, ID: "i" + m})
		case "AwaitEncodeMessage":
			resp, a.err = s.EncodeMessage(ctx, sval{XMLName: xml.Name{Space: ns, Local: "message"}, M: m, ID: "i" + m, Type: "chat", Text: body(a.big)})
		case "AwaitSendPresence":
			resp, a.err = s.SendPresence(ctx, rd(el("presence", "")))
		case "AwaitSendPresenceElement":
			resp, a.err = s.SendPresenceElement(ctx, rd(pay), stanza.Presence{Type: stanza.SubscribePresence, ID: "i" + m})
		case "AwaitEncodePresence":
			resp, a.err = s.EncodePresence(ctx, sval{XMLName: xml.Name{Space: ns, Local: "presence"}, M: m, ID: "i" + m, Text: body(a.big)})
		}
		if resp != nil {
			_ = resp.Close()
		}
	})
	a.returned = true
}

func markers(n *xt.Node, out map[string]bool) {
	if n.IsText() {
		return
	}
	if m, ok := n.Get("m"); ok {
		out[m] = true
	}
	for _, c := range n.Children {
		markers(c, out)
	}
}

const waitLong = 15 * time.Second

// shapedErr builds the error a failing handler returns or a failing transport
// reports: none of these is the peer's closing tag.
func shapedErr(k, what string) error {
	switch k {
	case "wrapeof":
		return fmt.Errorf("verif: %s: %w", what, io.EOF)
	case "eof":
		return io.EOF
	case "wrapunexpected":
		return fmt.Errorf("verif: %s: %w", what, io.ErrUnexpectedEOF)
	}
	return errors.New("verif: " + what)
}

// ---------------------------------------------------------------- property

func check(t interface {
	Helper()
	Fatalf(string, ...any)
}, tc tcase) {
	t.Helper()
	var sv *wire.Served
	fail := func(format string, args ...any) {
		t.Helper()
		out := ""
		if sv != nil {
			o := sv.Conn.Output()
			if len(o) > 1500 {
				o = append(append([]byte{}, o[:700]...), append([]byte("…"), o[len(o)-700:]...)...)
			}
			out = fmt.Sprintf("\noutput: %q", o)
		}
		ev.Failf(t, "%s\nresults:%s\n%s%s", tc.String(), tc.results(), fmt.Sprintf(format, args...), out)
	}
	opts := wire.SessionOpts{Layered: tc.layered, Negotiated: tc.negotiated}
	if tc.s2s {
		opts.State |= xmpp.S2S
	}
	ns := opts.NS()
	var err error
	console := &consoleWriter{}
	if tc.tee != "" {
		opts.TeeOut = console
	}
	sv, err = wire.NewServed(opts)
	if err != nil {
		t.Fatalf("harness: %v", err)
	}
	if tc.tee == "breaks" {
		console.broken.Store(true)
	}
	s := sv.Session
	var closeAttempts atomic.Int32
	sv.Conn.BeforeWrite = func(n int, p []byte) error {
		if bytes.Contains(p, []byte("</stream:stream>")) {
			if closeAttempts.Add(1) == 1 && tc.closeWriteFails {
				return wire.ErrInjected
			}
		}
		return nil
	}

	// handler: <trigger m=k/> writes a reply, <boom/> fails
	var hmu sync.Mutex
	handlerResults := map[int]error{}
	h := xmpp.HandlerFunc(func(t xmlstream.TokenReadEncoder, start *xml.StartElement) error {
		switch start.Name.Local {
		case "boom":
			k := ""
			for _, a := range start.Attr {
				if a.Name.Local == "k" {
					k = a.Value
				}
			}
			return shapedErr(k, "handler failed")
		case "trigger":
			var m string
			for _, a := range start.Attr {
				if a.Name.Local == "m" {
					m = a.Value
				}
			}
			_, err := xmlstream.Copy(t, xt.El("urn:verif:c10", "e", []xml.Attr{xt.A("m", m)}).Reader())
			k, _ := strconv.Atoi(m)
			hmu.Lock()
			handlerResults[k] = err
			hmu.Unlock()
			return err
		}
		return nil
	})
	if tc.serve {
		sv.Start(h)
	}

	// facts the oracle needs, collected while the history runs
	closeReturned := false // some Close has returned (before the current step started)
	inputTerminated := ""  // first terminating input event fed: peerclose peererror handlererror
	var firstErrCond string
	deadlineSet := false
	replyAfterClose := false
	replyFed := false
	closeAfterReply := false // a Close ran in a step after a handler reply was fed
	type txInfo struct {
		a          *action
		afterClose bool // started after a Close had returned
		withClose  bool // a Close ran in the same step
	}
	var txs []txInfo
	anyClose := false
	dead := false // the transport has failed: nothing fed afterwards can arrive
	feed := func(x string) {
		if !dead {
			sv.Feed(x)
		}
	}

	for _, step := range tc.steps {
		stepHasClose := false
		for _, a := range step {
			if a.kind == "close" {
				stepHasClose = true
			}
		}
		if stepHasClose && replyFed {
			closeAfterReply = true
		}
		var wg sync.WaitGroup
		for _, a := range step {
			a := a
			switch a.kind {
			case "close":
				anyClose = true
				wg.Add(1)
				go func() {
					defer wg.Done()
					a.panicked = ev.Guard(func() { a.err = s.Close() })
					a.returned = true
				}()
			case "transmit":
				txs = append(txs, txInfo{a: a, afterClose: closeReturned, withClose: stepHasClose})
				wg.Add(1)
				go func() {
					defer wg.Done()
					a.transmit(s, ns, sv.Conn)
				}()
			case "peerclose":
				if inputTerminated == "" {
					inputTerminated = "peerclose"
				}
				feed("</stream:stream>")
			case "peererror":
				if inputTerminated == "" {
					inputTerminated = "peererror"
					firstErrCond = a.cond
				}
				feed(`<stream:error><` + a.cond + ` xmlns="urn:ietf:params:xml:ns:xmpp-streams"/></stream:error>`)
			case "handlererror":
				if inputTerminated == "" {
					inputTerminated = "handlererror"
				}
				feed(`<boom xmlns="urn:verif:c10" k="` + a.errk + `"/>`)
			case "readfail":
				if inputTerminated == "" {
					inputTerminated = "readfail"
				}
				if !dead {
					sv.Conn.FailInput(shapedErr(a.errk, "connection lost"))
				}
				dead = true
			case "handlerreply":
				replyFed = true
				if closeReturned || stepHasClose {
					replyAfterClose = true
				}
				feed(`<trigger xmlns="urn:verif:c10" m="` + strconv.Itoa(a.idx) + `"/>`)
			case "deadline":
				deadlineSet = true
				a.panicked = ev.Guard(func() { a.err = s.SetCloseDeadline(time.Now().Add(40 * time.Millisecond)) })
			}
		}
		done := make(chan struct{})
		go func() { wg.Wait(); close(done) }()
		select {
		case <-done:
		case <-time.After(waitLong):
			if b := wire.Blocked(); len(b) > 0 {
				fail("calls of a step did not return within %v; goroutines parked inside the library:\n%s", waitLong, strings.Join(b, "\n\n"))
			}
			ev.Class("inconclusive-timeout")
			return
		}
		if stepHasClose {
			closeReturned = true
		}
		// let the serve loop digest what was fed before the next step starts
		if tc.serve {
			sv.Conn.WaitDrainedOr(sv.Done(), waitLong)
		}
	}

	// end of history: make sure Serve terminates
	forcedEnd := false
	if tc.serve {
		if inputTerminated == "" && !deadlineSet {
			forcedEnd = true
			sv.Feed("</stream:stream>")
		}
		silentDeadline := deadlineSet && inputTerminated == ""
		if inputTerminated == "peererror" && !dead {
			// the peer has reported a stream error and now waits (it neither
			// closes its stream nor the connection): Serve returns on account of
			// the error, it does not wait for anything more from this peer
			if !sv.Wait(5 * time.Second) {
				if sv.Conn.PendingInput() == 0 && wire.ServeIdle() {
					time.Sleep(300 * time.Millisecond)
					if sv.Conn.PendingInput() == 0 && wire.ServeIdle() {
						select {
						case <-sv.Done():
						default:
							fail("the peer's stream error (%s) was delivered 5 s ago and nothing follows it (the peer keeps the connection open and says nothing more), but Serve has not returned: it is waiting for more input", firstErrCond)
						}
					}
				}
			}
		}
		if !silentDeadline {
			sv.Conn.CloseInput()
		}
		if !sv.Wait(waitLong) {
			if silentDeadline {
				// the harness transport honours read deadlines promptly, so this is
				// the library not acting on the close deadline
				buf := make([]byte, 1<<18)
				buf = buf[:runtime.Stack(buf, true)]
				fail("the close deadline (40 ms) passed with a silent peer but Serve had not returned after %v\n%s", waitLong, buf)
			}
			if b := wire.Blocked(); len(b) > 0 {
				fail("Serve did not return within %v after the input ended; goroutines parked inside the library:\n%s", waitLong, strings.Join(b, "\n\n"))
			}
			ev.Class("inconclusive-timeout")
			return
		}
		if p := sv.Panic(); p != "" {
			fail("%s", p)
		}
	}
	for _, st := range tc.steps {
		for _, a := range st {
			if a.panicked != "" {
				fail("%s panicked: %s", a.kind, a.panicked)
			}
		}
	}

	// ---- wire
	out := sv.Conn.Output()
	if tc.tee == "breaks" {
		// with a console that refuses everything every write of the session
		// reports an error although its bytes may have reached the peer (an
		// element may be cut short by it): neither what calls return nor the
		// elements are judged for these cases, only the closing tag - at most
		// one, handed to the transport once, nothing behind it
		const tag = "</stream:stream>"
		if n := bytes.Count(out, []byte(tag)); n > 1 {
			fail("closing stream tag written %d times", n)
		}
		if i := bytes.Index(out, []byte(tag)); i >= 0 && len(bytes.TrimSpace(out[i+len(tag):])) > 0 {
			fail("bytes after the closing stream tag: %q", out[i+len(tag):])
		}
		if n := closeAttempts.Load(); n > 1 {
			fail("the closing stream tag was handed to the transport %d times", n)
		}
		ev.Class("xml-console-broken-closing-tag-only")
		return
	}
	items, _, perr := wire.ParseStream(out, false, ns)
	if perr != nil {
		fail("output is not well-formed: %v", perr)
	}
	closes := 0
	onWire := map[string]bool{}
	for _, it := range items {
		switch it.Kind {
		case "close":
			closes++
		case "element":
			if closes > 0 {
				fail("element written after the closing stream tag: %s", it.Node.Canon())
			}
			ms := map[string]bool{}
			markers(it.Node, ms)
			for m := range ms {
				if onWire[m] {
					fail("marker %s appears in two elements", m)
				}
				onWire[m] = true
			}
		case "other", "text":
			fail("bytes after the closing stream tag or between elements: %q", it.Raw)
		}
	}
	shutdown := anyClose || (tc.serve && sv != nil)
	if closes > 1 {
		fail("closing stream tag written %d times", closes)
	}
	if n := closeAttempts.Load(); n > 1 {
		fail("the closing stream tag was handed to the transport %d times (the first attempt failed: %v)", n, tc.closeWriteFails)
	}
	if tc.closeWriteFails {
		if closes != 0 {
			fail("the write of the closing tag was made to fail, yet a closing tag is on the wire")
		}
	} else if shutdown && closes != 1 {
		fail("the session was closed (Close called: %v, Serve returned: %v) but the closing stream tag was written %d times", anyClose, tc.serve, closes)
	}
	if !shutdown && closes != 0 {
		fail("closing stream tag written although nobody closed the session")
	}
	for _, st := range tc.steps {
		for _, a := range st {
			if a.kind == "close" && a.err != nil && !(tc.closeWriteFails && errors.Is(a.err, wire.ErrInjected)) {
				fail("Close returned %v", a.err)
			}
		}
	}

	// ---- transmit calls
	serveMayHaveClosed := tc.serve && (inputTerminated != "" || deadlineSet)
	for _, tx := range txs {
		a := tx.a
		m := strconv.Itoa(a.idx)
		if !a.returned {
			fail("transmit #%d did not return", a.idx)
		}
		if strings.HasSuffix(a.entry, "Bad") {
			if a.err == nil {
				fail("%s #%d (a value that cannot be marshalled) returned nil", a.entry, a.idx)
			}
			if tx.afterClose && !errors.Is(a.err, xmpp.ErrOutputStreamClosed) {
				fail("%s #%d started after Close had returned: got %v, want ErrOutputStreamClosed", a.entry, a.idx, a.err)
			}
			continue
		}
		if a.err == nil && !onWire[m] {
			fail("%s #%d returned nil but its element is not on the wire (before the closing tag)", a.entry, a.idx)
		}
		if a.err != nil && onWire[m] && !a.cancelMid {
			fail("%s #%d failed with %v but its complete element is on the wire", a.entry, a.idx, a.err)
		}
		if a.cancelMid && a.err != nil && (errors.Is(a.err, context.Canceled) || isTimeout(a.err)) {
			// the call may report that its context ended; the wire and the
			// session's closing behaviour are what is asserted for it
			continue
		}
		switch {
		case tx.afterClose:
			if !errors.Is(a.err, xmpp.ErrOutputStreamClosed) {
				fail("%s #%d started after Close had returned: got %v, want ErrOutputStreamClosed", a.entry, a.idx, a.err)
			}
		case tx.withClose || serveMayHaveClosed:
			if a.err != nil && !errors.Is(a.err, xmpp.ErrOutputStreamClosed) {
				fail("%s #%d concurrent with the close failed with %v, want success or ErrOutputStreamClosed", a.entry, a.idx, a.err)
			}
		default:
			if a.err != nil {
				fail("%s #%d failed on an open session: %v", a.entry, a.idx, a.err)
			}
		}
	}

	// ---- Serve's result and the final state
	if tc.serve {
		serveErr := sv.Err()
		clean := !replyAfterClose
		if closeAfterReply && errors.Is(serveErr, xmpp.ErrOutputStreamClosed) {
			// the handler had returned but the serve loop's flush of its reply may
			// still have been pending when the later Close ran
			clean = false
		}
		if tc.closeWriteFails && errors.Is(serveErr, wire.ErrInjected) {
			// Serve reports the failed write of the closing tag: fine; the final
			// state below is what matters
			clean = false
		}
		switch {
		case !clean:
			// a handler wrote after the output was closed: the handler's own error decides
		case inputTerminated == "peerclose" || (forcedEnd && inputTerminated == ""):
			if serveErr != nil && !deadlineSet && !(tc.closeWriteFails && errors.Is(serveErr, wire.ErrInjected)) {
				fail("the peer closed its stream but Serve returned %v", serveErr)
			}
		case inputTerminated == "peererror":
			var se stream.Error
			if !errors.As(serveErr, &se) || se.Err != firstErrCond {
				if !deadlineSet {
					fail("the peer sent stream error %q but Serve returned %T %v", firstErrCond, serveErr, serveErr)
				}
			}
		case inputTerminated == "handlererror":
			if serveErr == nil {
				fail("a handler failed but Serve returned nil")
			}
		case inputTerminated == "readfail":
			if serveErr == nil {
				fail("the transport failed (the peer did not close its stream) but Serve returned nil")
			}
		case deadlineSet:
			if serveErr == nil {
				fail("the close deadline passed with a silent peer but Serve returned nil")
			}
		}
		st := s.State()
		if st&xmpp.InputStreamClosed == 0 || st&xmpp.OutputStreamClosed == 0 {
			fail("Serve returned but the state is %v (both directions must be marked closed)", st)
		}
		// reads after the end: every reader obtained afterwards, however many and
		// however often each is read, fails with the input-closed error
		type readRes struct {
			round, k int
			tok      xml.Token
			err      error
			pan      string
		}
		rch := make(chan readRes, 1)
		go func() {
			var bad readRes
			bad.pan = ev.Guard(func() {
				for round := 0; round < 3; round++ {
					r := s.TokenReader()
					for k := 0; k <= round; k++ {
						tok, rerr := r.Token()
						if !errors.Is(rerr, xmpp.ErrInputStreamClosed) && bad.err == nil && bad.tok == nil {
							bad = readRes{round: round, k: k, tok: tok, err: rerr}
							if rerr == nil {
								bad.err = errors.New("<nil>")
							}
						}
					}
					r.Close()
					if round == 1 {
						r.Close() // closing a reader again is harmless
					}
				}
			})
			rch <- bad
		}()
		select {
		case rr := <-rch:
			if rr.pan != "" {
				fail("TokenReader after Serve: %s", rr.pan)
			}
			if rr.err != nil || rr.tok != nil {
				fail("reading after Serve returned (reader %d, read %d): got %v, %v; want ErrInputStreamClosed", rr.round, rr.k, rr.tok, rr.err)
			}
		case <-time.After(10 * time.Second):
			if b := wire.BlockedMatching("TokenReader"); len(b) > 0 {
				time.Sleep(300 * time.Millisecond)
				if b2 := wire.BlockedMatching("TokenReader"); len(b2) > 0 {
					fail("after Serve returned, obtaining and reading token readers (three in a row, each closed) does not come back: parked inside the library\n%s", strings.Join(b2, "\n\n"))
				}
			}
			ev.Class("inconclusive-timeout")
		}
	}
	// transmit after the session has ended (Serve has returned, or Close has
	// and its closing tag went out) must fail too: through every entry point,
	// those that would go on to wait for a response included
	if tc.serve || (anyClose && !tc.closeWriteFails) {
		what := "Serve returned"
		if !tc.serve {
			what = "Close returned"
		}
		for k, entry := range append(append([]string{}, entries...), awaitEntries...) {
			a := &action{kind: "transmit", entry: entry, idx: 9000 + k}
			before := sv.Conn.OutputLen()
			a.transmit(s, ns, sv.Conn)
			if a.panicked != "" {
				fail("%s after %s: %s", entry, what, a.panicked)
			}
			if !errors.Is(a.err, xmpp.ErrOutputStreamClosed) || sv.Conn.OutputLen() != before {
				fail("%s after %s: err=%v, %d bytes written; want ErrOutputStreamClosed and nothing written", entry, what, a.err, sv.Conn.OutputLen()-before)
			}
		}
	}
}

func classify(tc tcase) (bool, []string) {
	var classes []string
	closes, txAfter, closeSeen := 0, 0, false
	concClose := false
	for _, st := range tc.steps {
		stepClose := 0
		for _, a := range st {
			classes = append(classes, "action-"+a.kind)
			if tc.closeWriteFails && a.kind == "close" {
				classes = append(classes, "closing-tag-write-fails")
			}
			if a.cancelMid {
				classes = append(classes, "transmit-context-ends-mid-call")
			}
			if a.kind == "close" {
				closes++
				stepClose++
			}
			if a.kind == "transmit" {
				classes = append(classes, "entry-"+a.entry)
				if closeSeen {
					txAfter++
				}
			}
		}
		if stepClose >= 2 || (stepClose >= 1 && len(st) >= 2) {
			concClose = true
		}
		if stepClose > 0 {
			closeSeen = true
		}
	}
	if tc.serve {
		classes = append(classes, "served")
	}
	if tc.layered {
		classes = append(classes, "layered-transport")
	}
	if tc.tee != "" {
		classes = append(classes, "xml-console-"+tc.tee)
	}
	if tc.negotiated != "" {
		classes = append(classes, "session-negotiated-"+tc.negotiated)
	}
	if concClose {
		classes = append(classes, "close-concurrent-with-something")
	}
	return closes >= 2 || txAfter >= 1 || (concClose && tc.serve), classes
}

func TestC10Close(t *testing.T) {
	ev.Check(t, 3000, 12000, func(rt *rapid.T) {
		tc := genCase(rt)
		nt, classes := classify(tc)
		ev.Case(nt, tc.String(), classes...)
		check(rt, tc)
	})
}

// TestC10DeadlineRace: SetCloseDeadline called while the serve loop starts (and
// a second time shortly after) with a silent peer: Serve must end with an error
// when the deadline passes — never with nil, never early.  The schedule is
// what varies, so the same tiny history is repeated many times.
func TestC10DeadlineRace(t *testing.T) {
	ev.Begin(t)
	n := ev.N(600, 6000)
	for i := 0; i < n; i++ {
		sv, err := wire.NewServed(wire.SessionOpts{})
		if err != nil {
			t.Fatalf("harness: %v", err)
		}
		twice := i%2 == 1
		yields := i % 5
		ev.Case(true, fmt.Sprintf("deadline-race twice=%v yields=%d", twice, yields), "deadline-race")
		sv.Start(nil)
		for k := 0; k < yields; k++ {
			runtime.Gosched()
		}
		t0 := time.Now()
		d := 4 * time.Millisecond
		if err := sv.Session.SetCloseDeadline(t0.Add(d)); err != nil {
			t.Fatalf("harness: SetCloseDeadline: %v", err)
		}
		if twice {
			runtime.Gosched()
			_ = sv.Session.SetCloseDeadline(t0.Add(d))
		}
		if !sv.Wait(waitLong) {
			buf := make([]byte, 1<<18)
			buf = buf[:runtime.Stack(buf, true)]
			ev.Failf(t, "iteration %d (twice=%v): Serve had not returned %v after a %v close deadline with a silent peer\n%s", i, twice, waitLong, d, buf)
		}
		if p := sv.Panic(); p != "" {
			ev.Failf(t, "iteration %d: %s", i, p)
		}
		if sv.Err() == nil {
			ev.Failf(t, "iteration %d (SetCloseDeadline %d yields after Serve was started, twice=%v): Serve returned nil after %v although the peer never closed its stream", i, yields, twice, time.Since(t0))
		}
		if el := time.Since(t0); el < d-time.Millisecond {
			ev.Failf(t, "iteration %d: Serve returned %v after only %v, before the close deadline (%v) had passed", i, sv.Err(), el, d)
		}
	}
}

// TestC10DeadlineExtended: the application sets a close deadline and then
// extends it; the peer keeps sending (without closing its stream) past the
// first deadline.  The deadline in force is the later one: Serve must not give
// up before it has passed.  (One-sided: a late return decides nothing.)
func TestC10DeadlineExtended(t *testing.T) {
	ev.Begin(t)
	n := ev.N(40, 400)
	for i := 0; i < n; i++ {
		sv, err := wire.NewServed(wire.SessionOpts{})
		if err != nil {
			t.Fatalf("harness: %v", err)
		}
		d1 := time.Duration(3+i%4) * time.Millisecond
		d2 := time.Duration(45+5*(i%3)) * time.Millisecond
		ev.Case(true, fmt.Sprintf("deadline-extended d1=%v d2=%v", d1, d2), "close-deadline-extended")
		sv.Start(nil)
		t0 := time.Now()
		if err := sv.Session.SetCloseDeadline(t0.Add(d1)); err != nil {
			t.Fatalf("harness: SetCloseDeadline: %v", err)
		}
		if i%2 == 1 {
			runtime.Gosched()
		}
		if err := sv.Session.SetCloseDeadline(t0.Add(d2)); err != nil {
			t.Fatalf("harness: SetCloseDeadline: %v", err)
		}
		// (the second call replaces the first deadline only if it was made before
		// that deadline passed: on a loaded machine this goroutine may have been
		// kept waiting for longer than the few milliseconds between them, and a
		// Serve that ended at the first deadline is then right)
		late := !time.Now().Before(t0.Add(d1 - 500*time.Microsecond))
		// the peer talks on, after the first deadline and before the second
		for _, at := range []time.Duration{d1 + 6*time.Millisecond, d1 + 16*time.Millisecond} {
			if w := time.Until(t0.Add(at)); w > 0 {
				time.Sleep(w)
			}
			sv.Feed(`<presence xmlns="jabber:client" from="peer@example.org/r"/>`)
		}
		if !sv.Wait(waitLong) {
			buf := make([]byte, 1<<18)
			buf = buf[:runtime.Stack(buf, true)]
			ev.Failf(t, "iteration %d: Serve had not returned %v after a close deadline of %v\n%s", i, waitLong, d2, buf)
		}
		el := time.Since(t0)
		if p := sv.Panic(); p != "" {
			ev.Failf(t, "iteration %d: %s", i, p)
		}
		if sv.Err() == nil {
			ev.Failf(t, "iteration %d: Serve returned nil after %v although the peer never closed its stream", i, el)
		}
		if late {
			ev.Class("close-deadline-extended-too-late-to-judge")
		}
		if el < d2-time.Millisecond && !late {
			ev.Failf(t, "iteration %d: SetCloseDeadline(+%v) then SetCloseDeadline(+%v), the peer sent stanzas after the first deadline: Serve returned %v after only %v, before the close deadline in force (+%v) had passed", i, d1, d2, sv.Err(), el, d2)
		}
		sv.Conn.Close()
	}
}

func isTimeout(err error) bool {
	var te interface{ Timeout() bool }
	return errors.As(err, &te) && te.Timeout()
}

// consoleWriter is the application's XML console (StreamConfig.TeeOut); once
// broken it refuses everything (its window was closed, its log file is full).
type consoleWriter struct {
	broken atomic.Bool
	mu     sync.Mutex
	n      int
}

func (c *consoleWriter) Write(p []byte) (int, error) {
	if c.broken.Load() {
		return 0, errors.New("verif: the XML console is gone")
	}
	c.mu.Lock()
	c.n += len(p)
	c.mu.Unlock()
	return len(p), nil
}
