// C02 — A client asked to use STARTTLS never proceeds in clear text.
package c02

import (
	"bytes"
	"context"
	"crypto/ecdsa"
	"crypto/elliptic"
	"crypto/rand"
	"crypto/tls"
	"crypto/x509"
	"crypto/x509/pkix"
	"encoding/xml"
	"fmt"
	"io"
	"math/big"
	"net"
	"regexp"
	"strings"
	"sync"
	"testing"
	"time"

	"pgregory.net/rapid"

	"mellium.im/sasl"
	"mellium.im/xmlstream"
	"mellium.im/xmpp"
	"mellium.im/xmpp/jid"
	"mellium.im/xmpp/stanza"
	"mellium.im/xmpp/verifharness/internal/ev"
	"mellium.im/xmpp/verifharness/internal/wire"
)

func TestMain(m *testing.M) {
	makeCA()
	ev.Main(m, "C02")
}

const (
	tlsNS  = "urn:ietf:params:xml:ns:xmpp-tls"
	saslNS = "urn:ietf:params:xml:ns:xmpp-sasl"
	bindNS = "urn:ietf:params:xml:ns:xmpp-bind"
)

// ---------------------------------------------------------------- test CA

var (
	serverCert tls.Certificate
	rootPool   *x509.CertPool
)

func makeCA() {
	key, err := ecdsa.GenerateKey(elliptic.P256(), rand.Reader)
	if err != nil {
		panic(err)
	}
	tmpl := &x509.Certificate{
		SerialNumber:          big.NewInt(1),
		Subject:               pkix.Name{CommonName: "verif test ca"},
		NotBefore:             time.Now().Add(-time.Hour),
		NotAfter:              time.Now().Add(24 * time.Hour),
		KeyUsage:              x509.KeyUsageDigitalSignature | x509.KeyUsageCertSign,
		ExtKeyUsage:           []x509.ExtKeyUsage{x509.ExtKeyUsageServerAuth},
		BasicConstraintsValid: true,
		IsCA:                  true,
		DNSNames:              []string{"example.net", "example.org", "im.example.com", "other.example"},
	}
	der, err := x509.CreateCertificate(rand.Reader, tmpl, tmpl, &key.PublicKey, key)
	if err != nil {
		panic(err)
	}
	cert, _ := x509.ParseCertificate(der)
	rootPool = x509.NewCertPool()
	rootPool.AddCert(cert)
	serverCert = tls.Certificate{Certificate: [][]byte{der}, PrivateKey: key}
}

// peerEnd is the harness end of a wire.Conn as a net.Conn (for tls.Server).
type peerEnd struct {
	c   *wire.Conn
	off int
	mu  sync.Mutex
	dl  time.Duration
}

func (p *peerEnd) Read(b []byte) (int, error) {
	p.c.WaitOutput(func(out []byte) bool { return len(out) > p.off }, p.dl)
	out := p.c.Output()
	if len(out) > p.off {
		n := copy(b, out[p.off:])
		p.off += n
		return n, nil
	}
	if p.c.Closed() {
		return 0, io.EOF
	}
	return 0, peerTimeout{}
}

// peerTimeout is a temporary net.Error so that crypto/tls does not treat a
// timed-out read as a fatal, sticky connection error.
type peerTimeout struct{}

func (peerTimeout) Error() string   { return "verif: peer read timed out" }
func (peerTimeout) Timeout() bool   { return true }
func (peerTimeout) Temporary() bool { return true }

func (p *peerEnd) Write(b []byte) (int, error)        { p.c.Feed(b); return len(b), nil }
func (p *peerEnd) Close() error                       { return nil }
func (p *peerEnd) LocalAddr() net.Addr                { return p.c.LocalAddr() }
func (p *peerEnd) RemoteAddr() net.Addr               { return p.c.RemoteAddr() }
func (p *peerEnd) SetDeadline(t time.Time) error      { return nil }
func (p *peerEnd) SetReadDeadline(t time.Time) error  { return nil }
func (p *peerEnd) SetWriteDeadline(t time.Time) error { return nil }

// ---------------------------------------------------------------- case model

type sessionCase struct {
	domain   string // domainpart of the client's own address
	first    string // first features list: required optional absent-others absent-empty missing-eof missing-error among
	answer   string // to <starttls/>: proceed failure wrongns unknown text garbage eof
	after    string // after proceed: tls tls-inject garbage
	honest   bool   // after TLS: honest SASL+bind script
	tee      bool
	extraDbl bool // an extra double that needs Secure
	// the to attribute of the peer's clear-text response header: "" (none),
	// "own" (the client's address) or "foreign" (somebody else's, in another domain)
	hdrTo string
	// the server the session connects to ("" = the domain of its own address, or
	// a host in another domain: hosted service, server-to-server)
	location string
	// the constructor: "" NewSession with a negotiator, "client" / "server" the
	// convenience constructors NewClientSession / NewServerSession
	ctor string
	// position of the STARTTLS feature in the configured list (0 first, as in
	// the documentation's examples; 1 between SASL and bind; 2 last)
	tlsPos int
	// the peer's first header on the protected stream: "" complete, "noid" /
	// "noversion": lacks what its clear-text header declared
	protHdr string
	// the transport handed to the constructor is a wrapper around the plain
	// connection whose type also has a ConnectionState method (a metering /
	// logging wrapper that may or may not carry TLS; here it does not and
	// reports the zero state)
	wrapped bool
	// the mechanisms the client's SASL feature is configured with: "" PLAIN,
	// "scram" SCRAM only, "scram+plain"
	mechs string
	// beforeProceed, when set, is called by the peer after it has read the
	// client's <starttls/> and before it answers <proceed/> (used to overlap
	// several sessions that share one feature value)
	beforeProceed func()
}

type tcase struct {
	nilCfg bool
	// all sessions of the case are made with one Negotiator value (besides
	// sharing the StartTLS feature value)
	sharedNeg bool
	sessions  []sessionCase
}

func (tc tcase) String() string {
	var sb strings.Builder
	fmt.Fprintf(&sb, "StartTLS(cfg nil=%v) reused for %d sessions (one Negotiator value for all: %v):", tc.nilCfg, len(tc.sessions), tc.sharedNeg)
	for i, s := range tc.sessions {
		fmt.Fprintf(&sb, "\n  session %d: domain=%s first-list=%s answer=%s after-proceed=%s honest-after-tls=%v tee=%v extra-double=%v clear-header-to=%q location=%q first-protected-header=%q transport-wrapper-with-ConnectionState-method=%v client-mechanisms=%q constructor=%q position-of-STARTTLS-in-the-feature-list=%d", i, s.domain, s.first, s.answer, s.after, s.honest, s.tee, s.extraDbl, s.hdrTo, s.location, s.protHdr, s.wrapped, s.mechs, s.ctor, s.tlsPos)
	}
	return sb.String()
}

var firsts = []string{"required", "required", "optional", "among", "among", "among-required", "absent-others", "absent-empty", "missing-eof", "missing-error",
	// lists the client cannot use: white space, text or a comment inside the
	// list, a list in a foreign namespace, another stream-level element in its place
	"defective-space", "defective-text", "defective-comment", "defective-foreign-list", "defective-other-stream-element"}
var answers = []string{"proceed", "proceed", "proceed", "failure", "wrongns", "unknown", "text", "garbage", "eof",
	"ws1-eof", "ws3-eof", "ws4-eof", "ws5-eof", "ws9-eof", "ws4-failure", "ws5-unknown"}

// whitespaceTokens is white space that an XML decoder delivers as n separate
// character data tokens (keep-alives in every spelling XML has for them).
func whitespaceTokens(n int) string {
	var sb strings.Builder
	for i := 0; i < n; i++ {
		if i%2 == 0 {
			sb.WriteString([]string{"\n", " ", "\t\r\n"}[(i/2)%3])
		} else {
			sb.WriteString("<![CDATA[ ]]>")
		}
	}
	return sb.String()
}

var afters = []string{"tls", "tls", "tls-inject", "tls-inject", "garbage"}

func genCase(t *rapid.T) tcase {
	tc := tcase{nilCfg: rapid.Bool().Draw(t, "nilcfg"), sharedNeg: rapid.Bool().Draw(t, "sharedNegotiator")}
	n := rapid.SampledFrom([]int{1, 1, 2, 3}).Draw(t, "nsessions")
	for i := 0; i < n; i++ {
		tc.sessions = append(tc.sessions, sessionCase{
			domain:   rapid.SampledFrom([]string{"example.net", "example.org", "im.example.com"}).Draw(t, "domain"),
			first:    rapid.SampledFrom(firsts).Draw(t, "first"),
			answer:   rapid.SampledFrom(answers).Draw(t, "answer"),
			after:    rapid.SampledFrom(afters).Draw(t, "after"),
			honest:   rapid.Bool().Draw(t, "honest"),
			tee:      rapid.Bool().Draw(t, "tee"),
			extraDbl: rapid.IntRange(0, 3).Draw(t, "extra") == 0,
			hdrTo:    rapid.SampledFrom([]string{"", "", "own", "own", "foreign", "foreign-samelen"}).Draw(t, "hdrTo"),
			location: rapid.SampledFrom([]string{"", "", "xmpp.hosting.example.org"}).Draw(t, "location"),
			protHdr:  rapid.SampledFrom([]string{"", "", "", "noid", "noversion"}).Draw(t, "protHdr"),
			wrapped:  rapid.IntRange(0, 3).Draw(t, "wrapped") == 0,
			mechs:    rapid.SampledFrom([]string{"", "", "", "scram", "scram+plain"}).Draw(t, "mechs"),
		})
		sc := &tc.sessions[len(tc.sessions)-1]
		sc.tlsPos = rapid.SampledFrom([]int{0, 0, 1, 2}).Draw(t, "tlsPos")
		if !sc.tee {
			switch rapid.IntRange(0, 3).Draw(t, "ctor") {
			case 0:
				// NewClientSession: the server is the domain of the own address
				sc.ctor, sc.location = "client", ""
			case 1:
				// NewServerSession: we are the server sc.domain, the peer another one
				sc.ctor, sc.honest = "server", false
				if sc.location == "" {
					sc.location = "peer.example.com"
				}
			}
		}
	}
	return tc
}

// ---------------------------------------------------------------- one session

type sresult struct {
	err        error
	state      xmpp.SessionState
	hsComplete bool
	clear      []byte // everything the client wrote before the first TLS record
	sni        string
	sawHello   bool
	teeIn      []byte
	teeOut     []byte
	wireIn     []byte // clear-text bytes fed to the client before TLS
	problems   []string
	panicked   string
	tlsFirst   []byte // first protected bytes the TLS server read
	// namespaces Session.Feature reports as advertised "for the current stream"
	// once the session is established
	reported map[string]bool
	// Session.In() once the constructor has returned
	inID, inLang string
}

var toAttr = regexp.MustCompile(` to=['"]([^'"]*)['"]`)

func header(from string) string { return headerTo(from, "") }

func headerTo(from, to string) string {
	h := `<?xml version="1.0"?><stream:stream xmlns="` + stanza.NSClient + `" xmlns:stream="` + wire.StreamNS + `" version="1.0" id="s1" xml:lang="tlh" from="` + from + `"`
	if to != "" {
		h += ` to="` + to + `"`
	}
	return h + ">"
}

// protHeader is a header of the TLS-protected stream: its own id, no language.
// kind "noid" / "noversion": it fails to declare what the clear-text header
// declared.
func protHeader(from, kind string) string {
	h := `<?xml version="1.0"?><stream:stream xmlns="` + stanza.NSClient + `" xmlns:stream="` + wire.StreamNS + `" from="` + from + `"`
	if kind != "noversion" {
		h += ` version="1.0"`
	}
	if kind != "noid" {
		h += ` id="p1"`
	}
	return h + ">"
}

// meteredConn is a transport wrapper of the kind applications put around
// their connections; its type has a ConnectionState method because the
// connection underneath may be a TLS connection.  Here it is not: the zero
// state is reported.
type meteredConn struct{ net.Conn }

func (meteredConn) ConnectionState() tls.ConnectionState { return tls.ConnectionState{} }

func secureDouble() xmpp.StreamFeature {
	return xmpp.StreamFeature{
		Name:      xml.Name{Space: "urn:verif:sec", Local: "sec"},
		Necessary: xmpp.Secure,
		List: func(ctx context.Context, e xmlstream.TokenWriter, start xml.StartElement) (bool, error) {
			return false, nil
		},
		Parse: func(ctx context.Context, d *xml.Decoder, start *xml.StartElement) (bool, interface{}, error) {
			return false, nil, d.Skip()
		},
		Negotiate: func(ctx context.Context, s *xmpp.Session, data interface{}) (xmpp.SessionState, io.ReadWriter, error) {
			_, err := fmt.Fprint(s.Conn(), `<sec xmlns="urn:verif:sec"/>`)
			return 0, nil, err
		},
	}
}

const ioWait = 4 * time.Second

// readUntil reads from the peer end until pred(accumulated) or timeout/EOF.
func readUntil(p *peerEnd, acc *[]byte, pred func([]byte) bool) bool {
	buf := make([]byte, 4096)
	for !pred(*acc) {
		n, err := p.Read(buf)
		*acc = append(*acc, buf[:n]...)
		if err != nil {
			return pred(*acc)
		}
	}
	return true
}

// sharedNeg is one Negotiator value used for several sessions, one after the
// other (a reconnect loop): cfg is what the next session's configuration
// callback returns.
type sharedNeg struct {
	neg xmpp.Negotiator
	cfg func() xmpp.StreamConfig
	// feats, when set, is the one feature slice every session's configuration
	// returns (an application that builds its feature list once)
	feats []xmpp.StreamFeature
}

func newSharedNeg() *sharedNeg {
	sn := &sharedNeg{}
	sn.neg = xmpp.NewNegotiator(func(*xmpp.Session, *xmpp.StreamConfig) xmpp.StreamConfig {
		if sn.cfg == nil { // (NewNegotiator probes the callback once)
			return xmpp.StreamConfig{}
		}
		return sn.cfg()
	})
	return sn
}

func runSession(sc sessionCase, feature xmpp.StreamFeature, forceTee *bool) sresult {
	return runSessionNeg(sc, feature, forceTee, nil)
}

func runSessionNeg(sc sessionCase, feature xmpp.StreamFeature, forceTee *bool, shared *sharedNeg) sresult {
	var res sresult
	conn := wire.NewConn()
	pe := &peerEnd{c: conn, dl: ioWait}
	var teeIn, teeOut bytes.Buffer
	useTee := sc.tee
	if forceTee != nil {
		useTee = *forceTee
	}
	local := jid.MustParse("juliet@" + sc.domain + "/balcony")
	if sc.ctor == "server" {
		local = jid.MustParse(sc.domain)
	}
	fix := func(h string) string {
		if sc.ctor == "server" {
			return strings.Replace(h, `xmlns="`+stanza.NSClient+`"`, `xmlns="`+stanza.NSServer+`"`, 1)
		}
		return h
	}
	peerFrom := sc.domain
	if sc.location != "" {
		peerFrom = sc.location
	}
	saslMechs := []sasl.Mechanism{sasl.Plain}
	switch sc.mechs {
	case "scram":
		saslMechs = []sasl.Mechanism{sasl.ScramSha256, sasl.ScramSha1}
	case "scram+plain":
		saslMechs = []sasl.Mechanism{sasl.ScramSha1, sasl.Plain}
	}
	feats := []xmpp.StreamFeature{feature, xmpp.SASL("", "secret", saslMechs...), xmpp.BindResource()}
	switch sc.tlsPos {
	case 1:
		feats[0], feats[1] = feats[1], feats[0]
	case 2:
		feats = []xmpp.StreamFeature{feats[1], feats[2], feats[0]}
	}
	if sc.extraDbl {
		feats = append(feats, secureDouble())
	}
	if shared != nil {
		if shared.feats == nil {
			shared.feats = feats
		}
		feats = shared.feats
	}
	var peerWG sync.WaitGroup
	peerWG.Add(1)
	problem := func(format string, args ...any) {
		res.problems = append(res.problems, fmt.Sprintf(format, args...))
	}
	feedClear := func(s string) {
		res.wireIn = append(res.wireIn, s...)
		conn.FeedString(s)
	}
	go func() {
		defer peerWG.Done()
		var acc []byte
		// 1. client header
		if !readUntil(pe, &acc, func(b []byte) bool {
			return bytes.Contains(b, []byte("<stream:stream")) && bytes.HasSuffix(bytes.TrimSpace(b), []byte(">"))
		}) {
			return
		}
		if sc.ctor == "server" {
			// the receiving server answers as the host the initiating server
			// addressed (virtual hosting): from = the 'to' of the header it got
			if m := toAttr.FindSubmatch(acc); m != nil {
				peerFrom = string(m[1])
			}
		}
		// 2. first features list
		hdr1 := fix(header(peerFrom))
		switch sc.hdrTo {
		case "own":
			hdr1 = fix(headerTo(peerFrom, local.String()))
		case "foreign":
			hdr1 = fix(headerTo(peerFrom, "alice@evil.example"))
		case "foreign-samelen":
			// somebody else's address, in another domain, whose parts are as long
			// as the parts of the client's own address
			other := map[string]string{"example.net": "example.org", "example.org": "example.net", "im.example.com": "im.example.net"}[sc.domain]
			hdr1 = fix(headerTo(peerFrom, "romeo1@"+other+"/balcony"))
		}
		starttls := `<starttls xmlns="` + tlsNS + `"/>`
		mechs := `<mechanisms xmlns="` + saslNS + `"><mechanism>PLAIN</mechanism><mechanism>SCRAM-SHA-1</mechanism><mechanism>SCRAM-SHA-256</mechanism></mechanisms>`
		switch sc.first {
		case "among-required":
			feedClear(hdr1 + `<stream:features>` + mechs + `<starttls xmlns="` + tlsNS + `"><required/></starttls><bind xmlns="` + bindNS + `"/></stream:features>`)
		case "required":
			feedClear(hdr1 + `<stream:features><starttls xmlns="` + tlsNS + `"><required/></starttls></stream:features>`)
		case "optional":
			feedClear(hdr1 + `<stream:features>` + starttls + `</stream:features>`)
		case "among":
			feedClear(hdr1 + `<stream:features>` + mechs + starttls + `<bind xmlns="` + bindNS + `"/><sec xmlns="urn:verif:sec"/></stream:features>`)
		case "absent-others":
			feedClear(hdr1 + `<stream:features>` + mechs + `<bind xmlns="` + bindNS + `"/><sec xmlns="urn:verif:sec"/></stream:features>`)
		case "absent-empty":
			feedClear(hdr1 + `<stream:features/>`)
		case "missing-eof":
			feedClear(hdr1)
			conn.CloseInput()
			return
		case "missing-error":
			feedClear(hdr1 + `<stream:error><host-unknown xmlns="urn:ietf:params:xml:ns:xmpp-streams"/></stream:error>`)
			conn.CloseInput()
			return
		case "defective-space":
			feedClear(hdr1 + `<stream:features>` + "\n  " + starttls + "\n" + `</stream:features>`)
		case "defective-text":
			feedClear(hdr1 + `<stream:features>` + starttls + `hello` + mechs + `</stream:features>`)
		case "defective-comment":
			feedClear(hdr1 + `<stream:features><!-- features -->` + starttls + `</stream:features>`)
		case "defective-foreign-list":
			feedClear(hdr1 + `<features xmlns="urn:verif:notstream">` + starttls + `</features>`)
		case "defective-other-stream-element":
			feedClear(hdr1 + `<stream:whatever>` + starttls + `</stream:whatever>`)
		}
		// 3. what does the client send next (in clear)?
		mark := len(acc)
		if !readUntil(pe, &acc, func(b []byte) bool { return bytes.Contains(b[mark:], []byte(">")) }) {
			return
		}
		if !bytes.Contains(acc[mark:], []byte("<starttls")) {
			// anything else in clear text is judged by the oracle from the capture
			conn.CloseInput()
			return
		}
		// 4. answer
		switch sc.answer {
		case "failure":
			feedClear(`<failure xmlns="` + tlsNS + `"/>`)
			conn.CloseInput()
			return
		case "wrongns":
			feedClear(`<proceed xmlns="urn:verif:nottls"/>`)
			conn.CloseInput()
			return
		case "unknown":
			feedClear(`<whatever xmlns="` + tlsNS + `"/>`)
			conn.CloseInput()
			return
		case "text":
			feedClear(`proceed`)
			conn.CloseInput()
			return
		case "garbage":
			feedClear("\x16\x03\x01\x00\x02<<")
			conn.CloseInput()
			return
		case "eof":
			conn.CloseInput()
			return
		}
		if strings.HasPrefix(sc.answer, "ws") {
			// white space only, then the end of the stream, a refusal or an
			// element that is no answer: never a <proceed/>
			n := int(sc.answer[2] - '0')
			feedClear(whitespaceTokens(n))
			switch {
			case strings.HasSuffix(sc.answer, "-failure"):
				feedClear(`<failure xmlns="` + tlsNS + `"/>`)
			case strings.HasSuffix(sc.answer, "-unknown"):
				feedClear(`<whatever xmlns="` + tlsNS + `"/>`)
			}
			conn.CloseInput()
			return
		}
		proceed := `<proceed xmlns="` + tlsNS + `"/>`
		if sc.beforeProceed != nil {
			sc.beforeProceed()
		}
		switch sc.after {
		case "garbage":
			feedClear(proceed + "this is not a TLS record")
			conn.CloseInput()
			return
		case "tls-inject":
			// classic STARTTLS injection: forged plaintext pipelined behind <proceed/>
			feedClear(proceed + fix(header(peerFrom)) + `<stream:features>` + mechs + `</stream:features>`)
		default:
			feedClear(proceed)
		}
		// 5. TLS handshake (the harness is the server)
		pe.off = len(acc)
		cfg := &tls.Config{
			Certificates: []tls.Certificate{serverCert},
			MinVersion:   tls.VersionTLS12,
			GetConfigForClient: func(h *tls.ClientHelloInfo) (*tls.Config, error) {
				res.sni = h.ServerName
				res.sawHello = true
				return nil, nil
			},
		}
		srv := tls.Server(pe, cfg)
		if err := srv.Handshake(); err != nil {
			conn.CloseInput()
			return
		}
		// 6. inside TLS: the client must start with a fresh stream header and
		// then WAIT for ours (it must not act on the forged plaintext)
		buf := make([]byte, 4096)
		var prot []byte
		for !bytes.Contains(prot, []byte(">")) || !bytes.Contains(prot, []byte("<stream:stream")) {
			n, err := srv.Read(buf)
			prot = append(prot, buf[:n]...)
			if err != nil {
				break
			}
			if len(prot) > 2000 {
				break
			}
		}
		res.tlsFirst = append([]byte{}, prot...)
		if !bytes.Contains(prot, []byte("<stream:stream")) {
			problem("the first protected bytes are not a fresh stream header: %q", prot)
			conn.CloseInput()
			return
		}
		// give a client that believed the forged features the time to talk
		pe.dl = 30 * time.Millisecond
		n, _ := srv.Read(buf)
		pe.dl = ioWait
		if n > 0 {
			problem("inside TLS the client sent %q right after its header, before the server had said anything: it acted on data received in clear text", buf[:n])
			conn.CloseInput()
			return
		}
		if !sc.honest {
			srv.Write([]byte(fix(protHeader(peerFrom, sc.protHdr)) + `<stream:features/>`))
			// an empty list over TLS: the client may legitimately become ready
			time.Sleep(time.Millisecond)
			return
		}
		// honest SASL + bind
		srv.Write([]byte(fix(protHeader(peerFrom, sc.protHdr)) + `<stream:features>` + mechs + `</stream:features>`))
		prot = nil
		for !bytes.Contains(prot, []byte("</auth>")) {
			n, err := srv.Read(buf)
			prot = append(prot, buf[:n]...)
			if err != nil {
				conn.CloseInput()
				return
			}
		}
		srv.Write([]byte(`<success xmlns="` + saslNS + `"/>`))
		prot = nil
		for !bytes.Contains(prot, []byte("<stream:stream")) || !bytes.HasSuffix(bytes.TrimSpace(prot), []byte(">")) {
			n, err := srv.Read(buf)
			prot = append(prot, buf[:n]...)
			if err != nil {
				conn.CloseInput()
				return
			}
		}
		srv.Write([]byte(fix(protHeader(peerFrom, "")) + `<stream:features><bind xmlns="` + bindNS + `"/></stream:features>`))
		prot = nil
		for !bytes.Contains(prot, []byte("</iq>")) {
			n, err := srv.Read(buf)
			prot = append(prot, buf[:n]...)
			if err != nil {
				conn.CloseInput()
				return
			}
		}
		id := ""
		if i := bytes.Index(prot, []byte(`id="`)); i >= 0 {
			rest := prot[i+4:]
			id = string(rest[:bytes.IndexByte(rest, '"')])
		}
		srv.Write([]byte(`<iq type="result" id="` + id + `"><bind xmlns="` + bindNS + `"><jid>` + local.String() + `</jid></bind></iq>`))
	}()

	var s *xmpp.Session
	done := make(chan struct{})
	go func() {
		defer close(done)
		res.panicked = ev.Guard(func() {
			build := func() xmpp.StreamConfig {
				cfg := xmpp.StreamConfig{Features: feats}
				if useTee {
					cfg.TeeIn, cfg.TeeOut = &teeIn, &teeOut
				}
				return cfg
			}
			neg := xmpp.NewNegotiator(func(*xmpp.Session, *xmpp.StreamConfig) xmpp.StreamConfig { return build() })
			if shared != nil {
				shared.cfg = build
				neg = shared.neg
			}
			loc := local.Domain()
			if sc.location != "" {
				loc = jid.MustParse(sc.location)
			}
			var transport net.Conn = conn
			if sc.wrapped {
				transport = meteredConn{Conn: conn}
			}
			switch sc.ctor {
			case "client":
				s, res.err = xmpp.NewClientSession(context.Background(), local, transport, feats...)
			case "server":
				s, res.err = xmpp.NewServerSession(context.Background(), loc, local, transport, feats...)
			default:
				s, res.err = xmpp.NewSession(context.Background(), loc, local, transport, 0, neg)
			}
		})
	}()
	select {
	case <-done:
	case <-time.After(20 * time.Second):
		res.problems = append(res.problems, "harness: NewSession did not return within 20 s")
		conn.Close()
		<-done
	}
	conn.Close()
	peerWG.Wait()
	if s != nil {
		res.state = s.State()
		res.hsComplete = s.ConnectionState().HandshakeComplete
		res.inID, res.inLang = s.In().ID, s.In().Lang
		res.reported = map[string]bool{}
		for _, ns := range []string{tlsNS, saslNS, bindNS, "urn:verif:sec"} {
			if _, ok := s.Feature(ns); ok {
				res.reported[ns] = true
			}
		}
	}
	out := conn.Output()
	// clear text = everything before the first TLS record (0x16 handshake)
	res.clear = out
	if i := bytes.IndexByte(out, 0x16); i >= 0 {
		res.clear = out[:i]
	}
	res.teeIn = teeIn.Bytes()
	res.teeOut = teeOut.Bytes()
	return res
}

// ---------------------------------------------------------------- oracle

func clearTextOK(clear []byte) string {
	items, rest, err := wire.ParseStream(clear, true, "")
	if err != nil {
		return fmt.Sprintf("clear-text output is not well-formed: %v", err)
	}
	if rest != len(clear) {
		return fmt.Sprintf("clear-text output ends in an incomplete construct: %q", clear[rest:])
	}
	opens, starttls := 0, 0
	for _, it := range items {
		switch it.Kind {
		case "decl":
		case "open":
			opens++
		case "element":
			if it.Node.Name.Space == tlsNS && it.Node.Name.Local == "starttls" && len(it.Node.Children) == 0 {
				starttls++
			} else {
				return fmt.Sprintf("the client sent %s in clear text", it.Node.Canon())
			}
		default:
			return fmt.Sprintf("the client sent %s %q in clear text", it.Kind, it.Raw)
		}
	}
	if opens != 1 {
		return fmt.Sprintf("%d stream headers in clear text", opens)
	}
	if starttls > 1 {
		return fmt.Sprintf("%d STARTTLS requests in clear text", starttls)
	}
	return ""
}

type failer interface {
	Helper()
	Fatalf(string, ...any)
}

func check(t failer, tc tcase) {
	t.Helper()
	var cfg *tls.Config
	if !tc.nilCfg {
		cfg = &tls.Config{RootCAs: rootPool, ServerName: "example.net", MinVersion: tls.VersionTLS12}
	}
	feature := xmpp.StartTLS(cfg)
	var shared *sharedNeg
	if tc.sharedNeg {
		shared = newSharedNeg()
	}
	for i, sc := range tc.sessions {
		r := runSessionNeg(sc, feature, nil, shared)
		fail := func(format string, args ...any) {
			t.Helper()
			ev.Failf(t, "%s\nsession %d: err=%v state=%v tls-handshake-complete=%v client-hello-seen=%v sni=%q\nclear-text output: %q\nclear-text input: %q\n%s",
				tc.String(), i, r.err, r.state, r.hsComplete, r.sawHello, r.sni, r.clear, r.wireIn, fmt.Sprintf(format, args...))
		}
		if r.panicked != "" {
			fail("%s", r.panicked)
		}
		for _, p := range r.problems {
			if strings.HasPrefix(p, "harness:") {
				ev.Class("inconclusive-harness-timeout")
				return
			}
			fail("%s", p)
		}
		// (a) clear text: one header, at most one <starttls/>, nothing else
		if msg := clearTextOK(r.clear); msg != "" {
			fail("%s", msg)
		}
		// (b) ready only over TLS
		if r.err == nil {
			if r.state&xmpp.Ready == 0 {
				fail("nil error without the ready bit")
			}
			if !r.hsComplete {
				fail("the session is established but there is no TLS layer (handshake not complete)")
			}
		}
		if r.state&xmpp.Ready != 0 && !r.hsComplete {
			fail("ready bit set on a connection without TLS")
		}
		if r.state&xmpp.Authn != 0 && !r.hsComplete {
			fail("authenticated bit set on a connection without TLS")
		}
		// (c') what was advertised in clear text only is not an advertisement of
		// the protected stream (Session.Feature: "advertised ... for the current stream")
		if r.err == nil && r.hsComplete {
			clearOnly := map[string]bool{}
			switch sc.first {
			case "required", "optional":
				clearOnly[tlsNS] = true
			case "among":
				clearOnly[tlsNS], clearOnly[saslNS], clearOnly[bindNS], clearOnly["urn:verif:sec"] = true, true, true, true
			case "among-required":
				clearOnly[tlsNS], clearOnly[saslNS], clearOnly[bindNS] = true, true, true
			}
			if sc.after == "tls-inject" {
				clearOnly[saslNS] = true
			}
			if sc.honest {
				// re-advertised inside TLS
				delete(clearOnly, saslNS)
				delete(clearOnly, bindNS)
			}
			for _, ns := range []string{tlsNS, saslNS, bindNS, "urn:verif:sec"} {
				if clearOnly[ns] && r.reported[ns] {
					fail("Session.Feature(%q) reports the feature as advertised on the TLS-protected stream, but the peer only ever advertised it in clear text before the TLS layer was installed", ns)
				}
			}
			if len(clearOnly) > 1 {
				ev.Class("clear-only-advertisements-then-tls")
			}
		}
		// (c'') what the clear-text header declared (stream id, language, version)
		// says nothing about the protected stream
		if r.hsComplete && r.err == nil {
			if sc.protHdr != "" {
				fail("the peer's header on the TLS-protected stream is deficient (%s) but the session was established: what the clear-text header declared stood in for it (Session.In(): id %q lang %q)", sc.protHdr, r.inID, r.inLang)
			}
			if r.inID == "s1" || r.inLang == "tlh" {
				fail("Session.In() reports id %q and language %q for the TLS-protected stream: these are the values of the clear-text header (the protected header has id \"p1\" and no language)", r.inID, r.inLang)
			}
		}
		if r.hsComplete && sc.protHdr != "" {
			ev.Class("deficient-header-on-the-protected-stream")
			if r.state&xmpp.Ready != 0 {
				fail("the peer's header on the TLS-protected stream is deficient (%s) but the session is ready (err=%v)", sc.protHdr, r.err)
			}
		}
		// (d) default configuration names this session's own domain
		if r.sawHello {
			want := sc.domain
			if !tc.nilCfg {
				want = "example.net"
			}
			if r.sni != want {
				fail("TLS ClientHello names %q; this session's own address has domain %q (cfg nil=%v)", r.sni, want, tc.nilCfg)
			}
			ev.Class("tls-handshake-started", "tls-handshake-started-constructor-"+sc.ctor)
		}
		if r.hsComplete && r.err == nil {
			ev.Class("established-over-tls")
		}
		// (e) the tee changes nothing (deterministic clear-text branches only)
		if sc.ctor == "" && (sc.answer != "proceed" || sc.first == "missing-eof" || sc.first == "missing-error") {
			off, on := false, true
			a := runSession(sc, xmpp.StartTLS(cfg), &off)
			b := runSession(sc, xmpp.StartTLS(cfg), &on)
			if !bytes.Equal(a.clear, b.clear) {
				fail("tee off/on differ on the wire:\n  off: %q\n  on:  %q", a.clear, b.clear)
			}
			if (a.err == nil) != (b.err == nil) || a.state != b.state {
				fail("tee off/on differ in outcome: off err=%v state=%v; on err=%v state=%v", a.err, a.state, b.err, b.state)
			}
			if a.err != nil && b.err != nil && a.err.Error() != b.err.Error() {
				fail("tee off/on differ in the error: off %q; on %q", a.err, b.err)
			}
			if !bytes.Equal(b.teeOut, b.clear) {
				fail("TeeOut received %q but the client wrote %q", b.teeOut, b.clear)
			}
			if !bytes.HasPrefix(b.wireIn, b.teeIn) {
				fail("TeeIn received %q which is not what the client read (%q)", b.teeIn, b.wireIn)
			}
			ev.Class("tee-metamorphic-pair")
		}
	}
}

func classify(tc tcase) (bool, []string) {
	var classes []string
	nt := len(tc.sessions) >= 2
	for _, s := range tc.sessions {
		classes = append(classes, "first-"+s.first, "answer-"+s.answer, "clear-header-to-"+s.hdrTo)
		if s.wrapped {
			classes = append(classes, "transport-wrapper-with-ConnectionState-method")
		}
		if s.answer == "proceed" {
			classes = append(classes, "after-"+s.after)
		}
		if s.tee {
			nt = true
			classes = append(classes, "tee")
		}
		if s.first != "missing-eof" && s.first != "missing-error" {
			nt = true
		}
	}
	if tc.nilCfg {
		classes = append(classes, "cfg-nil")
	}
	if tc.sharedNeg && len(tc.sessions) >= 2 {
		classes = append(classes, "negotiator-value-reused")
	}
	return nt, classes
}

func TestC02StartTLS(t *testing.T) {
	ev.Check(t, 700, 5000, func(rt *rapid.T) {
		tc := genCase(rt)
		nt, classes := classify(tc)
		ev.Case(nt, tc.String(), classes...)
		check(rt, tc)
	})
}

// TestC02SharedOverlap: one StartTLS feature value negotiated by several
// sessions AT THE SAME TIME (each waits for <proceed/> while the others enter
// negotiation): every handshake must still name its own session's domain.
func TestC02SharedOverlap(t *testing.T) {
	domains := []string{"example.net", "example.org", "im.example.com"}
	ev.Check(t, 150, 1500, func(rt *rapid.T) {
		n := rapid.IntRange(2, 3).Draw(rt, "nsessions")
		nilCfg := rapid.IntRange(0, 3).Draw(rt, "nilcfg") > 0
		order := rapid.Permutation(seq(n)).Draw(rt, "release-order")
		together := rapid.Bool().Draw(rt, "release-together")
		doms := rapid.Permutation(domains).Draw(rt, "domains")[:n]
		desc := fmt.Sprintf("overlapping sessions: StartTLS(cfg nil=%v) shared by %v; <proceed/> released in order %v (all at once=%v)", nilCfg, doms, order, together)
		ev.Case(true, desc, "overlap", fmt.Sprintf("overlap-%d", n))
		var cfg *tls.Config
		if !nilCfg {
			cfg = &tls.Config{RootCAs: rootPool, ServerName: "example.net", MinVersion: tls.VersionTLS12}
		}
		feature := xmpp.StartTLS(cfg)
		var arrived sync.WaitGroup
		arrived.Add(n)
		release := make([]chan struct{}, n)
		results := make([]sresult, n)
		var done sync.WaitGroup
		for i := 0; i < n; i++ {
			release[i] = make(chan struct{})
			i := i
			sc := sessionCase{domain: doms[i], first: "required", answer: "proceed", after: "tls", honest: false,
				beforeProceed: func() {
					arrived.Done()
					select {
					case <-release[i]:
					case <-time.After(10 * time.Second):
					}
				}}
			done.Add(1)
			go func() {
				defer done.Done()
				results[i] = runSession(sc, feature, nil)
			}()
		}
		allArrived := make(chan struct{})
		go func() { arrived.Wait(); close(allArrived) }()
		select {
		case <-allArrived:
		case <-time.After(10 * time.Second):
			for i := range release {
				close(release[i])
			}
			done.Wait()
			ev.Class("inconclusive-harness-timeout")
			return
		}
		for _, i := range order {
			close(release[i])
			if !together {
				time.Sleep(3 * time.Millisecond)
			}
		}
		done.Wait()
		for i, r := range results {
			if r.panicked != "" {
				ev.Failf(rt, "%s\nsession %d panicked: %s", desc, i, r.panicked)
			}
			if !r.sawHello {
				continue
			}
			want := doms[i]
			if !nilCfg {
				want = "example.net"
			}
			if r.sni != want {
				ev.Failf(rt, "%s\nsession %d (own domain %q): TLS ClientHello names %q, want %q (err=%v)", desc, i, doms[i], r.sni, want, r.err)
			}
			if msg := clearTextOK(r.clear); msg != "" {
				ev.Failf(rt, "%s\nsession %d: %s", desc, i, msg)
			}
			ev.Class("overlap-handshake-started")
		}
	})
}

func seq(n int) []int {
	s := make([]int, n)
	for i := range s {
		s[i] = i
	}
	return s
}
