package c02

// The same promise under WebSocket framing (RFC 7395): a session made through
// the websocket package's negotiator over a transport that is not secure yet,
// with StartTLS configured.  Whatever the peer advertises (nothing at all,
// other features only, STARTTLS) and however it answers, the session does not
// become ready in clear text and sends nothing but its stream header, the
// <starttls/> request and a closing element in clear.

import (
	"bytes"
	"context"
	"crypto/tls"
	"fmt"
	"testing"

	"mellium.im/sasl"
	"pgregory.net/rapid"

	"mellium.im/xmpp"
	"mellium.im/xmpp/jid"
	"mellium.im/xmpp/verifharness/internal/ev"
	"mellium.im/xmpp/verifharness/internal/wire"
	"mellium.im/xmpp/websocket"
)

const framingNS = "urn:ietf:params:xml:ns:xmpp-framing"

type wsCase struct {
	first  string // first features list: empty others starttls starttls-required
	answer string // to <starttls/>: failure eof garbage proceed
	extra  bool   // an extra double that needs Secure is configured too
}

func (c wsCase) String() string {
	return fmt.Sprintf("websocket framing, transport not secure, StartTLS configured; first-list=%s answer-to-starttls=%s extra-double=%v", c.first, c.answer, c.extra)
}

func TestC02WebSocket(t *testing.T) {
	ev.Check(t, 400, 4000, func(rt *rapid.T) {
		c := wsCase{
			first:  rapid.SampledFrom([]string{"empty", "empty", "others", "starttls", "starttls-required"}).Draw(rt, "first"),
			answer: rapid.SampledFrom([]string{"failure", "eof", "garbage", "proceed"}).Draw(rt, "answer"),
			extra:  rapid.Bool().Draw(rt, "extra"),
		}
		ev.Case(true, c.String(), "websocket-framing", "ws-first-"+c.first, "ws-answer-"+c.answer)
		local := jid.MustParse("juliet@example.net")
		open := `<open xmlns="` + framingNS + `" version="1.0" id="w1" from="example.net"/>`
		mechs := `<mechanisms xmlns="` + saslNS + `"><mechanism>PLAIN</mechanism></mechanisms>`
		list := ""
		switch c.first {
		case "others":
			list = mechs + `<bind xmlns="` + bindNS + `"/>`
		case "starttls":
			list = `<starttls xmlns="` + tlsNS + `"/>` + mechs
		case "starttls-required":
			list = `<starttls xmlns="` + tlsNS + `"><required/></starttls>`
		}
		step := 0
		peer := wire.NewReactive(func(p *wire.Reactive, fresh []byte) []byte {
			step++
			switch {
			case step == 1:
				return []byte(open + `<features xmlns="` + wire.StreamNS + `">` + list + `</features>`)
			case bytes.Contains(fresh, []byte("<starttls")):
				switch c.answer {
				case "failure":
					return []byte(`<failure xmlns="` + tlsNS + `"/>`)
				case "garbage":
					return []byte(`<foo xmlns="urn:verif:x"/>`)
				case "proceed":
					// (and then no TLS handshake follows: the peer keeps talking XML)
					return []byte(`<proceed xmlns="` + tlsNS + `"/>` + open + `<features xmlns="` + wire.StreamNS + `"/>`)
				}
			}
			return nil
		})
		feats := []xmpp.StreamFeature{xmpp.StartTLS(&tls.Config{ServerName: "example.net", MinVersion: tls.VersionTLS12}), xmpp.SASL("", "secret", sasl.Plain), xmpp.BindResource()}
		if c.extra {
			feats = append(feats, secureDouble())
		}
		var s *xmpp.Session
		var err error
		p := ev.Guard(func() {
			s, err = xmpp.NewSession(context.Background(), local.Domain(), local, peer.Conn, 0,
				websocket.Negotiator(func(*xmpp.Session, *xmpp.StreamConfig) xmpp.StreamConfig { return xmpp.StreamConfig{Features: feats} }))
		})
		out := peer.Conn.Output()
		fail := func(format string, args ...any) {
			ev.Failf(rt, "%s\nresult: err=%v state=%v\nclient wrote (clear text): %q\n%s", c.String(), err, stateOf(s), out, fmt.Sprintf(format, args...))
		}
		if p != "" {
			fail("%s", p)
		}
		if s != nil && s.State()&xmpp.Ready != 0 {
			fail("the session is ready although no TLS layer was ever installed (the peer never performed a TLS handshake)")
		}
		if err == nil {
			fail("session establishment succeeded in clear text")
		}
		// (what follows the <starttls/> request may be a TLS ClientHello: binary,
		// not clear text)
		clear := out
		if i := bytes.Index(out, []byte("<starttls")); i >= 0 {
			if j := bytes.Index(out[i:], []byte("\x16\x03")); j >= 0 {
				clear = out[:i+j]
			}
		}
		for _, leak := range []string{"<auth", "<iq", "<sec ", "<response", "secret"} {
			if bytes.Contains(clear, []byte(leak)) {
				fail("the client sent %q in clear text", leak)
			}
		}
	})
}

func stateOf(s *xmpp.Session) string {
	if s == nil {
		return "<nil session>"
	}
	return fmt.Sprint(s.State())
}
