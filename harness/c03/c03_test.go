// C03 — The authenticated bit is only set by a completed, accepted SASL exchange.
package c03

import (
	"bytes"
	"context"
	"crypto/sha1"
	"crypto/sha256"
	"encoding/base64"
	"fmt"
	"hash"
	"strings"
	"testing"

	"golang.org/x/crypto/pbkdf2"
	"pgregory.net/rapid"

	"mellium.im/sasl"
	"mellium.im/xmpp"
	"mellium.im/xmpp/jid"
	"mellium.im/xmpp/stanza"
	"mellium.im/xmpp/verifharness/internal/ev"
	"mellium.im/xmpp/verifharness/internal/wire"
	"mellium.im/xmpp/verifharness/internal/xt"
)

func TestMain(m *testing.M) { ev.Main(m, "C03") }

const saslNS = "urn:ietf:params:xml:ns:xmpp-sasl"

var (
	client = jid.MustParse("juliet@example.net")
	server = jid.MustParse("example.net")
)

const password = "r0m30myr0m30"

var allMechs = map[string]sasl.Mechanism{
	"PLAIN":              sasl.Plain,
	"SCRAM-SHA-1":        sasl.ScramSha1,
	"SCRAM-SHA-256":      sasl.ScramSha256,
	"SCRAM-SHA-1-PLUS":   sasl.ScramSha1Plus,
	"SCRAM-SHA-256-PLUS": sasl.ScramSha256Plus,
}
// xPlainPlus: an application's own mechanism that follows the "-PLUS" naming
// convention (PLAIN's exchange under another name; unlike the SCRAM variants
// it has a working receiving side)
const xPlainPlusName = "X-VERIF-PLAIN-PLUS"

var xPlainPlus = sasl.Mechanism{Name: xPlainPlusName, Start: sasl.Plain.Start, Next: sasl.Plain.Next}

// roundsMech is an application's own multi-step mechanism (the SASL profile
// puts no bound on the number of challenges): the initiator sends "r0", the
// receiver answers "c0", ... after n such rounds the initiator sends
// identity NUL user NUL password, which the receiver hands to the permission
// callback.  Every message is checked against what the exchange expects.
func roundsMech(n int) sasl.Mechanism {
	return sasl.Mechanism{
		Name: fmt.Sprintf("X-VERIF-ROUNDS-%d", n),
		Start: func(m *sasl.Negotiator) (bool, []byte, interface{}, error) {
			return true, []byte("r0"), 1, nil
		},
		Next: func(m *sasl.Negotiator, challenge []byte, data interface{}) (bool, []byte, interface{}, error) {
			k, _ := data.(int)
			if m.State()&sasl.Receiving == sasl.Receiving {
				switch {
				case k < n:
					if string(challenge) != fmt.Sprintf("r%d", k) {
						return false, nil, nil, sasl.ErrInvalidChallenge
					}
					return true, []byte(fmt.Sprintf("c%d", k)), k + 1, nil
				case k == n:
					parts := bytes.Split(challenge, []byte{0})
					if len(parts) != 3 {
						return false, nil, nil, sasl.ErrInvalidChallenge
					}
					if m.Permissions(sasl.Credentials(func() ([]byte, []byte, []byte) { return parts[1], parts[2], parts[0] })) {
						return false, nil, k + 1, nil
					}
					return false, nil, nil, sasl.ErrAuthn
				}
				return false, nil, nil, sasl.ErrTooManySteps
			}
			// initiating side: k messages sent so far
			if string(challenge) != fmt.Sprintf("c%d", k-1) {
				return false, nil, nil, sasl.ErrInvalidChallenge
			}
			switch {
			case k < n:
				return true, []byte(fmt.Sprintf("r%d", k)), k + 1, nil
			case k == n:
				u, pw, id := m.Credentials()
				msg := append(append(append(append(append([]byte{}, id...), 0), u...), 0), pw...)
				return false, msg, k + 1, nil
			}
			return false, nil, nil, sasl.ErrTooManySteps
		},
	}
}

var roundsNames []string

func init() {
	for _, n := range []int{2, 7, 8, 9, 13} {
		m := roundsMech(n)
		allMechs[m.Name] = m
		roundsNames = append(roundsNames, m.Name)
	}
}

func roundsOf(name string) int {
	n := 0
	fmt.Sscanf(name, "X-VERIF-ROUNDS-%d", &n)
	return n
}

func recvMech(name string) sasl.Mechanism {
	if name == xPlainPlusName {
		return xPlainPlus
	}
	return allMechs[name]
}

// offeredIn: the mechanism names of the <mechanisms/> list in what the
// receiving side has written so far
func offeredIn(out []byte) map[string]bool {
	names := map[string]bool{}
	for _, part := range bytes.Split(out, []byte("<mechanism>"))[1:] {
		if i := bytes.Index(part, []byte("</mechanism>")); i >= 0 {
			names[string(part[:i])] = true
		}
	}
	return names
}

var mechNames = []string{"PLAIN", "SCRAM-SHA-1", "SCRAM-SHA-256", "SCRAM-SHA-1-PLUS", "SCRAM-SHA-256-PLUS"}

func header(from, to, id string) string {
	s := `<?xml version="1.0"?><stream:stream xmlns="` + stanza.NSClient + `" xmlns:stream="` + wire.StreamNS + `" version="1.0"`
	if id != "" {
		s += ` id="` + id + `"`
	}
	if from != "" {
		s += ` from="` + from + `"`
	}
	if to != "" {
		s += ` to="` + to + `"`
	}
	return s + ">"
}

func b64(b []byte) string {
	if len(b) == 0 {
		// (the client side does not decode the "=" spelling of empty data — it
		// fails closed on it, which this property does not forbid — so the honest
		// peer sends an empty element)
		return ""
	}
	return base64.StdEncoding.EncodeToString(b)
}

// ---------------------------------------------------------------- initiator

type action struct {
	kind string
	aux  string
}

var advKinds = []string{"honest", "honest", "honest", "honest-as-success", "honest-as-challenge", "empty-challenge", "eq-challenge", "badb64-challenge", "garbage-challenge",
	"empty-success", "garbage-success", "badb64-success", "failure", "abort", "unknown-sasl", "foreign", "chardata", "eof", "replay-first"}

type icase struct {
	prefs      []string
	advertised []string
	actions    []action
}

func (c icase) String() string {
	var sb strings.Builder
	fmt.Fprintf(&sb, "initiator prefs=%v advertised=%v actions=", c.prefs, c.advertised)
	for _, a := range c.actions {
		sb.WriteString(a.kind + " ")
	}
	return sb.String()
}

func genICase(t *rapid.T) icase {
	var c icase
	perm := rapid.Permutation(mechNames).Draw(t, "perm")
	c.prefs = perm[:rapid.IntRange(1, len(perm)).Draw(t, "nprefs")]
	if rapid.IntRange(0, 2).Draw(t, "noplus") > 0 {
		// most cases: mechanisms for which an honest reference server exists
		var p []string
		for _, m := range c.prefs {
			if !strings.HasSuffix(m, "-PLUS") {
				p = append(p, m)
			}
		}
		if len(p) > 0 {
			c.prefs = p
		}
	}
	n := rapid.IntRange(0, 5).Draw(t, "nadv")
	for i := 0; i < n; i++ {
		c.advertised = append(c.advertised, rapid.SampledFrom(append([]string{"X-UNKNOWN", "ANONYMOUS", "plain", ""}, mechNames...)).Draw(t, "adv"))
	}
	if rapid.IntRange(0, 3).Draw(t, "advpref") > 0 {
		c.advertised = append(c.advertised, c.prefs[rapid.IntRange(0, len(c.prefs)-1).Draw(t, "advp")])
	}
	if rapid.IntRange(0, 5).Draw(t, "roundsMech") == 0 {
		// an application's own mechanism with many round trips is preferred and
		// advertised; the peer plays it honestly for a while
		m := rapid.SampledFrom(roundsNames).Draw(t, "rounds")
		c.prefs = append([]string{m}, c.prefs...)
		c.advertised = append(c.advertised, m)
		for i, k := 0, rapid.IntRange(0, roundsOf(m)+2).Draw(t, "honestPrefix"); i < k; i++ {
			c.actions = append(c.actions, action{kind: "honest"})
		}
	}
	na := rapid.IntRange(1, 6).Draw(t, "nactions")
	for i := 0; i < na; i++ {
		c.actions = append(c.actions, action{kind: rapid.SampledFrom(advKinds).Draw(t, "action")})
	}
	return c
}

func hashFor(name string) func() hash.Hash {
	if strings.Contains(name, "256") {
		return sha256.New
	}
	return sha1.New
}

// refServer is the honest server for the selected mechanism: the dependency's
// own server-side negotiator (trusted reference), fed with salted credentials
// for the known password.
func refServer(name string) *sasl.Negotiator {
	salt := []byte("verif-salt-0123")
	const iter = 4096
	return sasl.NewServer(allMechs[name], func(*sasl.Negotiator) bool { return true },
		sasl.SaltedCredentials(func(user, ident []byte, mech string) ([]byte, []byte, int64, error) {
			if string(user) != "juliet" {
				return nil, nil, 0, sasl.ErrAuthn
			}
			h := hashFor(mech)
			return salt, pbkdf2.Key([]byte(password), salt, iter, h().Size(), h), iter, nil
		}),
		sasl.Credentials(func() ([]byte, []byte, []byte) { return []byte("juliet"), []byte(password), nil }),
	)
}

type iresult struct {
	err        error
	authn      bool
	ready      bool
	authMech   string
	sentAuth   bool
	completed  bool // the honest server accepted everything and finished
	successRcv bool // a <success/> was delivered at or after the completing step
	tainted    bool // a non-honest action was delivered before completion
	log        []string
	panicked   string
	out        []byte
}

func payloadOf(el *xt.Node) ([]byte, bool) {
	txt := strings.TrimSpace(el.InnerText())
	if txt == "" || txt == "=" {
		return nil, true
	}
	b, err := base64.StdEncoding.DecodeString(txt)
	return b, err == nil
}

func runInitiator(c icase) iresult {
	var res iresult
	var srv *sasl.Negotiator
	step := 0
	phase := "header1"
	srvDone := false
	var firstHonest []byte
	peer := wire.NewReactive(func(p *wire.Reactive, fresh []byte) []byte {
		switch phase {
		case "header1":
			phase = "sasl"
			var sb strings.Builder
			sb.WriteString(header(server.String(), client.String(), "s1") + `<stream:features><mechanisms xmlns="` + saslNS + `">`)
			for _, m := range c.advertised {
				sb.WriteString(`<mechanism>` + m + `</mechanism>`)
			}
			sb.WriteString(`</mechanisms></stream:features>`)
			return []byte(sb.String())
		case "sasl":
			if bytes.Contains(fresh, []byte("<stream:stream")) {
				// restart after (claimed) success
				phase = "done"
				res.log = append(res.log, "client restarted the stream")
				return []byte(header(server.String(), client.String(), "s2") + `<stream:features/>`)
			}
			items, _, err := wire.ParseStream(fresh, false, stanza.NSClient)
			els := wire.Elements(items)
			if err != nil || len(els) != 1 {
				res.log = append(res.log, fmt.Sprintf("unparsable client output %q", fresh))
				return nil
			}
			el := els[0]
			clientMsg, okb64 := payloadOf(el)
			if el.Name.Local == "auth" {
				res.sentAuth = true
				res.authMech, _ = el.Get("mechanism")
				if _, known := allMechs[res.authMech]; known && !strings.HasSuffix(res.authMech, "-PLUS") {
					srv = refServer(res.authMech)
				}
			}
			if step >= len(c.actions) {
				res.log = append(res.log, "peer: eof (script exhausted)")
				return nil
			}
			a := c.actions[step]
			step++
			honest := func() (bool, []byte, bool) {
				if srv == nil || srvDone || !okb64 || res.tainted {
					return false, nil, false
				}
				more, resp, err := srv.Step(clientMsg)
				if err != nil {
					srvDone = true
					return false, nil, false
				}
				if !more {
					srvDone = true
					res.completed = true
				}
				if firstHonest == nil {
					firstHonest = append([]byte{}, resp...)
				}
				return true, resp, more
			}
			wrap := func(name string, payload string) []byte {
				return []byte(`<` + name + ` xmlns="` + saslNS + `">` + payload + `</` + name + `>`)
			}
			res.log = append(res.log, "peer: "+a.kind)
			switch a.kind {
			case "honest", "honest-as-success", "honest-as-challenge":
				if res.completed {
					// the mechanism is complete: the honest server has only <success/> left to say
					res.successRcv = true
					return wrap("success", "")
				}
				ok, resp, more := honest()
				if !ok {
					res.tainted = true
					return wrap("failure", `<not-authorized/>`)
				}
				name := "challenge"
				if !more {
					name = "success"
				}
				if a.kind == "honest-as-success" {
					name = "success"
				}
				if a.kind == "honest-as-challenge" {
					name = "challenge"
				}
				if name == "success" && res.completed {
					res.successRcv = true
				}
				if name == "success" && !res.completed {
					// premature success carrying honest data: legal only if the rest follows
				}
				return wrap(name, b64(resp))
			case "empty-challenge":
				res.tainted = res.tainted || !res.completed
				return wrap("challenge", "")
			case "eq-challenge":
				res.tainted = res.tainted || !res.completed
				return wrap("challenge", "=")
			case "badb64-challenge":
				res.tainted = true
				return wrap("challenge", "!!!not base64!!!")
			case "garbage-challenge":
				res.tainted = true
				return wrap("challenge", b64([]byte("r=garbage,s=QSXCR+Q6sek8bf92,i=4096")))
			case "empty-success":
				if !res.completed {
					// when the honest server has nothing to add to its acceptance
					// (PLAIN; the last step of a mechanism that ends with a message
					// of the initiator) an empty <success/> is exactly its answer
					if ok, resp, more := honest(); ok && (more || len(resp) > 0) {
						// the honest server had more to say: this success is not its own
						res.completed = false
						srvDone = true
					}
				}
				if res.completed {
					res.successRcv = true
				} else {
					res.tainted = true
				}
				return wrap("success", "")
			case "garbage-success":
				if !res.completed {
					// a mechanism that ends with a message of the initiator (PLAIN
					// after the initial response, the last step of the rounds
					// mechanism) is complete once the honest server accepts that
					// message; additional data with success is not part of it
					if ok, resp, more := honest(); ok && (more || len(resp) > 0) {
						res.completed = false
						srvDone = true
					}
				}
				if !res.completed {
					res.tainted = true
				} else {
					res.successRcv = true
				}
				return wrap("success", b64([]byte("v=bm90IGEgc2lnbmF0dXJl")))
			case "badb64-success":
				// a <success/> whose additional data is not base64 at all is not a
				// success signal the initiator can act on (RFC 6120 6.4.6,
				// incorrect-encoding), whatever the mechanism's state
				if !res.completed && res.authMech == "PLAIN" {
					honest()
				}
				res.tainted = true
				res.log = append(res.log, "(a <success/> with undecodable additional data is not a success signal)")
				return wrap("success", rapid_badb64(step))
			case "replay-first":
				res.tainted = res.tainted || !res.completed
				if firstHonest == nil {
					// (not a single short field: the SCRAM client of the mellium.im/sasl
					// dependency loops forever on a server-first message whose last
					// comma-separated field is shorter than three bytes; that defect is
					// outside the repository, see DESIGN.md)
					return wrap("challenge", b64([]byte("r=zz,s=QSXCR+Q6sek8bf92,i=4096")))
				}
				return wrap("challenge", b64(firstHonest))
			case "failure":
				res.tainted = true
				res.completed = false
				// a failure is a failure whatever it says: a defined condition, none
				// at all, only a text, or a condition this library does not know
				body := []string{"<" + rapid_cond(step) + "/>", "<" + rapid_cond(step) + "/>", "", `<text xml:lang="en">no</text>`,
					`<password-too-old xmlns="urn:verif:sasl-ext"/>`, `<credentials-expired/>`, `<not-authorized/><text>denied</text>`}[(step*7+len(c.prefs))%7]
				return wrap("failure", body)
			case "abort":
				res.tainted = true
				return wrap("abort", "")
			case "unknown-sasl":
				res.tainted = true
				return wrap("whatever", "")
			case "foreign":
				res.tainted = true
				return []byte(`<success xmlns="urn:verif:notsasl"/>`)
			case "chardata":
				res.tainted = true
				return []byte(`success`)
			case "eof":
				res.tainted = true
				return nil
			}
			return nil
		}
		return nil
	})
	var prefs []sasl.Mechanism
	for _, m := range c.prefs {
		prefs = append(prefs, allMechs[m])
	}
	var s *xmpp.Session
	res.panicked = ev.Guard(func() {
		s, res.err = xmpp.NewSession(context.Background(), server, client, peer.Conn, xmpp.Secure,
			xmpp.NewNegotiator(func(*xmpp.Session, *xmpp.StreamConfig) xmpp.StreamConfig {
				return xmpp.StreamConfig{Features: []xmpp.StreamFeature{xmpp.SASL("", password, prefs...)}}
			}))
	})
	if s != nil {
		res.authn = s.State()&xmpp.Authn != 0
		res.ready = s.State()&xmpp.Ready != 0
	}
	res.out = peer.Conn.Output()
	return res
}

func rapid_badb64(i int) string {
	return []string{"%%% not base64 %%%", "*garbage*", "dj1hYmN", "===", "dj1h YmM"}[i%5]
}

func rapid_cond(i int) string {
	return []string{"not-authorized", "aborted", "temporary-auth-failure", "malformed-request", "invalid-mechanism"}[i%5]
}

func expectedMech(c icase) string {
	for _, p := range c.prefs {
		for _, a := range c.advertised {
			if a == p {
				return p
			}
		}
	}
	return ""
}

type failer interface {
	Helper()
	Fatalf(string, ...any)
}

func checkInitiator(t failer, c icase) iresult {
	t.Helper()
	r := runInitiator(c)
	fail := func(format string, args ...any) {
		t.Helper()
		ev.Failf(t, "%s\npeer log: %v\nresult: err=%v authn=%v ready=%v auth-mechanism=%q completed=%v success-received=%v tainted=%v\nclient output: %q\n%s",
			c.String(), r.log, r.err, r.authn, r.ready, r.authMech, r.completed, r.successRcv, r.tainted, r.out, fmt.Sprintf(format, args...))
	}
	if r.panicked != "" {
		fail("%s", r.panicked)
	}
	want := expectedMech(c)
	if r.sentAuth && r.authMech != want {
		fail("the client used mechanism %q; the first configured mechanism that was advertised is %q", r.authMech, want)
	}
	if want == "" && r.sentAuth {
		fail("no configured mechanism was advertised but the client sent <auth mechanism=%q/>", r.authMech)
	}
	if r.authn {
		if !r.sentAuth || want == "" {
			fail("authenticated without a mechanism both sides offered")
		}
		if !r.completed {
			fail("marked authenticated although the mechanism did not run to completion (honest server messages not all delivered)")
		}
		if !r.successRcv {
			fail("marked authenticated although the receiver never signalled <success/> after the mechanism completed")
		}
	}
	if r.err == nil && !r.authn {
		fail("session established without authentication")
	}
	return r
}

func TestC03Initiator(t *testing.T) {
	ev.Check(t, 10000, 40000, func(rt *rapid.T) {
		c := genICase(rt)
		sel := expectedMech(c)
		classes := []string{"initiator", "selected:" + sel}
		ev.Case(len(c.actions) >= 2 || strings.HasPrefix(sel, "SCRAM"), c.String(), classes...)
		r := checkInitiator(rt, c)
		if r.authn {
			ev.Class("initiator-authenticated")
		}
	})
}

// TestC03InitiatorHonest is the sanity floor: fully honest scripts must
// authenticate, otherwise the property test above is vacuous.
func TestC03InitiatorHonest(t *testing.T) {
	ev.Begin(t)
	for _, m := range []string{"PLAIN", "SCRAM-SHA-1", "SCRAM-SHA-256"} {
		for _, variant := range [][]action{
			{{kind: "honest"}, {kind: "honest"}, {kind: "honest"}},
			{{kind: "honest"}, {kind: "honest-as-challenge"}, {kind: "honest"}},
			{{kind: "honest-as-success"}, {kind: "honest"}, {kind: "honest"}},
		} {
			c := icase{prefs: []string{m}, advertised: []string{"X", m}, actions: variant}
			ev.Case(true, c.String(), "honest-floor")
			r := checkInitiator(t, c)
			if !r.authn && variant[1].kind == "honest" && variant[0].kind == "honest" {
				t.Fatalf("harness: the fully honest %s exchange did not authenticate (err=%v log=%v); nothing can be concluded", m, r.err, r.log)
			}
		}
	}
}

// ---------------------------------------------------------------- receiver

type rstep struct {
	kind    string
	mech    string
	authz   string // authorization identity of the PLAIN message ("" = none)
	user    string
	pass    string
	verdict bool
	round   int // rounds-resp: the number in the message
}

type rcase struct {
	mechs []string
	steps []rstep
	// the feature is configured without a permission callback: nobody ever
	// accepts any credentials
	nilPerm bool
	// the context of ReceiveSession ends when the peer is about to send step
	// cancelAt (-1: never); the transport is a plain io.ReadWriter, so nothing
	// but the library's own checks reacts to it
	cancelAt int
}

func (c rcase) String() string {
	var sb strings.Builder
	fmt.Fprintf(&sb, "receiver configured=%v permission-callback-is-nil=%v context-ends-before-step=%d steps:", c.mechs, c.nilPerm, c.cancelAt)
	for _, s := range c.steps {
		fmt.Fprintf(&sb, " [%s mech=%q authzid=%q user=%q pass=%q verdict=%v round=%d]", s.kind, s.mech, s.authz, s.user, s.pass, s.verdict, s.round)
	}
	return sb.String()
}

var rKinds = []string{"auth", "auth", "auth", "auth-malformed", "auth-empty", "auth-eq", "auth-badb64", "response", "response-empty", "abort", "failure", "foreign", "unknown-sasl", "chardata", "eof"}

func genRCase(t *rapid.T) rcase {
	var c rcase
	c.mechs = []string{"PLAIN"}
	switch rapid.IntRange(0, 9).Draw(t, "plusConfigured") {
	case 0:
		// a receiving entity that (unwisely: the SASL dependency has no server
		// side for them and panics "not implemented") also lists the channel
		// binding variants; nobody is authenticated through them
		c.mechs = append(c.mechs, "SCRAM-SHA-256-PLUS", "SCRAM-SHA-1-PLUS")
	case 1, 2:
		c.mechs = append(c.mechs, xPlainPlusName)
	case 3:
		c.mechs = []string{xPlainPlusName, "PLAIN"}
	}
	n := rapid.IntRange(1, 5).Draw(t, "nsteps")
	for i := 0; i < n; i++ {
		s := rstep{kind: rapid.SampledFrom(rKinds).Draw(t, "kind")}
		s.mech = rapid.SampledFrom([]string{"PLAIN", "PLAIN", "PLAIN", "SCRAM-SHA-1", "X-UNKNOWN", "", "plain", "ANONYMOUS", "SCRAM-SHA-256-PLUS", "SCRAM-SHA-1-PLUS", xPlainPlusName, xPlainPlusName}).Draw(t, "mech")
		s.user = rapid.SampledFrom([]string{"juliet", "juliet", "romeo", ""}).Draw(t, "user")
		s.pass = rapid.SampledFrom([]string{password, password, "wrong", ""}).Draw(t, "pass")
		s.verdict = rapid.IntRange(0, 2).Draw(t, "verdict") > 0
		switch rapid.IntRange(0, 7).Draw(t, "authzid") {
		case 0:
			s.authz = s.user
		case 1:
			s.authz = s.user + "@" + server.Domain().String()
		case 2:
			s.authz = "admin"
		case 3:
			s.authz = "admin@" + server.Domain().String()
		}
		c.steps = append(c.steps, s)
	}
	c.nilPerm = rapid.IntRange(0, 7).Draw(t, "nilperm") == 0
	c.cancelAt = -1
	if rapid.IntRange(0, 5).Draw(t, "roundsScenario") == 0 {
		// the application's many-round mechanism, played honestly up to a
		// generated point, possibly with one deviation, then the steps drawn above
		m := rapid.SampledFrom(roundsNames).Draw(t, "roundsMech")
		n := roundsOf(m)
		c.mechs = append(c.mechs, m)
		proto := rstep{mech: m, user: "juliet", pass: password, verdict: rapid.IntRange(0, 3).Draw(t, "rverdict") > 0}
		var sc []rstep
		upto := rapid.IntRange(0, n+1).Draw(t, "roundsUpto")
		dev := rapid.SampledFrom([]string{"none", "none", "none", "skip", "repeat", "final-early", "abort"}).Draw(t, "roundsDeviation")
		at := rapid.IntRange(0, n).Draw(t, "roundsDevAt")
		for k := 0; k <= upto; k++ {
			st := proto
			switch {
			case k == 0:
				st.kind = "rounds-auth"
			case k == n:
				st.kind = "rounds-final"
			case k > n:
				st.kind, st.round = "rounds-resp", k
			default:
				st.kind, st.round = "rounds-resp", k
			}
			if k == at && k > 0 {
				switch dev {
				case "skip":
					st.kind, st.round = "rounds-resp", k+1
				case "repeat":
					st.kind, st.round = "rounds-resp", k-1
				case "final-early":
					st.kind = "rounds-final"
				case "abort":
					st.kind = "abort"
				}
			}
			sc = append(sc, st)
		}
		c.steps = append(sc, c.steps...)
	}
	if rapid.IntRange(0, 7).Draw(t, "ctxEnds") == 0 {
		c.cancelAt = rapid.IntRange(0, len(c.steps)).Draw(t, "cancelAt")
	}
	return c
}

type permCall struct {
	user, pass string
	verdict    bool
}

type rresult struct {
	err       error
	authn     bool
	calls     []permCall
	successes int
	log       []string
	panicked  string
	out       []byte
	// model
	unoffered []string // mechanisms the peer named that are configured but were not in the list the receiver wrote
	wantAuthn bool     // must authenticate
	mayAuthn  bool // may authenticate (degenerate but accepted credentials)
	cancelled bool // the context ended during the exchange
}

func runReceiver(c rcase) rresult {
	var res rresult
	step := 0
	verdictFor := false
	var mechs []sasl.Mechanism
	for _, m := range c.mechs {
		mechs = append(mechs, recvMech(m))
	}
	phase := "header1"
	// reference model of the profile on the receiving side
	modelDone := false
	roundsAt := -1
	roundsName := ""
	ctx, cancel := context.WithCancel(context.Background())
	defer cancel()
	peer := wire.NewReactive(func(p *wire.Reactive, fresh []byte) []byte {
		if n := bytes.Count(fresh, []byte("<success")); n > 0 {
			res.successes += n
		}
		switch phase {
		case "header1":
			phase = "sasl"
			return []byte(header(client.String(), server.String(), ""))
		case "sasl":
			if bytes.Contains(fresh, []byte("<success")) {
				// the server will restart the stream and wait for our header; end here
				phase = "done"
				return []byte(header(client.String(), server.String(), ""))
			}
			if step >= len(c.steps) {
				return nil
			}
			if step == c.cancelAt {
				cancel()
				res.cancelled = true
			}
			s := c.steps[step]
			step++
			verdictFor = s.verdict
			res.log = append(res.log, s.kind)
			plain := base64.StdEncoding.EncodeToString([]byte(s.authz + "\x00" + s.user + "\x00" + s.pass))
			authOK := func(payloadOK bool) {
				if modelDone {
					return
				}
				configured := false
				for _, m := range c.mechs {
					if m == s.mech {
						configured = true
					}
				}
				// (offered: named in the <mechanisms/> list this receiving entity wrote)
				if configured && !offeredIn(p.Conn.Output())[s.mech] {
					res.unoffered = append(res.unoffered, s.mech)
					configured = false
				}
				if configured && (s.mech == "PLAIN" || s.mech == xPlainPlusName) && payloadOK && s.verdict && !c.nilPerm {
					res.mayAuthn = true
					if s.user != "" && s.pass != "" && s.authz == "" {
						res.wantAuthn = true
					}
				}
				// any auth element ends the exchange for PLAIN (success or failure)
				modelDone = true
			}
			roundsOK := func() bool {
				configured := false
				for _, m := range c.mechs {
					configured = configured || m == s.mech
				}
				return configured && offeredIn(p.Conn.Output())[s.mech]
			}
			switch s.kind {
			case "rounds-auth":
				// reference model of the rounds mechanism: roundsAt is the number
				// of the next message the receiver expects (-1: no exchange)
				if !modelDone && roundsOK() {
					roundsAt = 1
					roundsName = s.mech
				} else {
					modelDone = true
				}
				return []byte(`<auth xmlns="` + saslNS + `" mechanism="` + s.mech + `">` + b64([]byte("r0")) + `</auth>`)
			case "rounds-resp":
				if !modelDone && roundsAt >= 0 && roundsAt == s.round && s.round < roundsOf(roundsName) {
					roundsAt++
				} else {
					modelDone = true
				}
				return []byte(`<response xmlns="` + saslNS + `">` + b64([]byte(fmt.Sprintf("r%d", s.round))) + `</response>`)
			case "rounds-final":
				if !modelDone && roundsAt >= 0 && roundsAt == roundsOf(roundsName) && s.verdict && !c.nilPerm {
					res.mayAuthn = true
					res.wantAuthn = true
				}
				modelDone = true
				el := "response"
				if roundsAt < 0 {
					el = "auth"
				}
				return []byte(`<` + el + ` xmlns="` + saslNS + `">` + b64([]byte("\x00"+s.user+"\x00"+s.pass)) + `</` + el + `>`)
			case "auth":
				authOK(true)
				return []byte(`<auth xmlns="` + saslNS + `" mechanism="` + s.mech + `">` + plain + `</auth>`)
			case "auth-malformed":
				authOK(false)
				return []byte(`<auth xmlns="` + saslNS + `" mechanism="` + s.mech + `">` + base64.StdEncoding.EncodeToString([]byte("no separators here")) + `</auth>`)
			case "auth-empty":
				authOK(false)
				return []byte(`<auth xmlns="` + saslNS + `" mechanism="` + s.mech + `"/>`)
			case "auth-eq":
				authOK(false)
				return []byte(`<auth xmlns="` + saslNS + `" mechanism="` + s.mech + `">=</auth>`)
			case "auth-badb64":
				authOK(false)
				return []byte(`<auth xmlns="` + saslNS + `" mechanism="` + s.mech + `">***</auth>`)
			case "response":
				if !modelDone && roundsAt >= 0 && roundsAt == roundsOf(roundsName) && s.verdict && !c.nilPerm {
					// identity NUL user NUL password is exactly the last message of
					// the rounds mechanism
					res.mayAuthn = true
				}
				modelDone = true
				return []byte(`<response xmlns="` + saslNS + `">` + plain + `</response>`)
			case "response-empty":
				modelDone = true
				return []byte(`<response xmlns="` + saslNS + `"/>`)
			case "abort":
				modelDone = true
				return []byte(`<abort xmlns="` + saslNS + `"/>`)
			case "failure":
				modelDone = true
				return []byte(`<failure xmlns="` + saslNS + `"><aborted/></failure>`)
			case "foreign":
				modelDone = true
				return []byte(`<auth xmlns="urn:verif:notsasl" mechanism="PLAIN">` + plain + `</auth>`)
			case "unknown-sasl":
				modelDone = true
				return []byte(`<whatever xmlns="` + saslNS + `"/>`)
			case "chardata":
				modelDone = true
				return []byte(`auth`)
			case "eof":
				modelDone = true
				return nil
			}
		}
		return nil
	})
	perm := func(n *sasl.Negotiator) bool {
		u, pw, _ := n.Credentials()
		res.calls = append(res.calls, permCall{string(u), string(pw), verdictFor})
		return verdictFor
	}
	if c.nilPerm {
		perm = nil
	}
	var s *xmpp.Session
	res.panicked = ev.Guard(func() {
		s, res.err = xmpp.ReceiveSession(ctx, peer.Conn, xmpp.Secure,
			xmpp.NewNegotiator(func(*xmpp.Session, *xmpp.StreamConfig) xmpp.StreamConfig {
				return xmpp.StreamConfig{Features: []xmpp.StreamFeature{xmpp.SASLServer(perm, mechs...)}}
			}))
	})
	if s != nil {
		res.authn = s.State()&xmpp.Authn != 0
	}
	res.out = peer.Conn.Output()
	res.successes = bytes.Count(res.out, []byte("<success"))
	return res
}

func checkReceiver(t failer, c rcase) rresult {
	t.Helper()
	r := runReceiver(c)
	fail := func(format string, args ...any) {
		t.Helper()
		ev.Failf(t, "%s\npeer log: %v\nresult: err=%v authn=%v permission-callback calls=%v success elements written=%d model-expects-authn=%v\nserver output: %q\n%s",
			c.String(), r.log, r.err, r.authn, r.calls, r.successes, r.wantAuthn, r.out, fmt.Sprintf(format, args...))
	}
	if r.panicked != "" {
		plus := false
		for _, m := range c.mechs {
			plus = plus || strings.HasSuffix(m, "-PLUS")
		}
		if !(plus && strings.Contains(r.panicked, "not implemented")) {
			fail("%s", r.panicked)
		}
		// (the SASL dependency's missing server side of the -PLUS mechanisms: a
		// defect outside the repository; what matters here is that nobody was
		// told they are authenticated)
		ev.Class("receiver-plus-mechanism-panics-in-the-dependency")
	}
	if r.authn && !r.mayAuthn && len(r.unoffered) > 0 {
		fail("marked authenticated through a mechanism (%v) that this receiving entity had not offered in its <mechanisms/> list", r.unoffered)
	}
	if r.authn && !r.mayAuthn {
		fail("marked authenticated although no completed exchange with accepted credentials took place")
	}
	if r.authn && c.nilPerm {
		fail("marked authenticated although the feature has no permission callback (nobody accepted the credentials)")
	}
	if r.authn {
		if len(r.calls) == 0 {
			fail("marked authenticated but the permission callback was never asked")
		}
		last := r.calls[len(r.calls)-1]
		if !last.verdict {
			fail("marked authenticated although the permission callback's last verdict was false")
		}
	}
	if !r.authn && r.wantAuthn && !r.cancelled {
		fail("an honest exchange with accepted credentials did not authenticate")
	}
	if r.cancelled {
		// establishment may rightly fail after a completed exchange (the context
		// has ended); success may only have been written for accepted credentials
		if r.successes > 0 && !r.mayAuthn {
			fail("<success/> written although no completed exchange with accepted credentials took place (the context had ended)")
		}
		if r.authn && r.successes == 0 {
			fail("marked authenticated without a <success/>")
		}
	} else if (r.successes > 0) != r.authn {
		fail("<success/> written %d times but authn=%v", r.successes, r.authn)
	}
	for _, call := range r.calls {
		found := false
		for _, s := range c.steps {
			if s.user == call.user && s.pass == call.pass {
				found = true
			}
		}
		if !found {
			fail("the permission callback was asked about credentials (%q, %q) that were never on the wire", call.user, call.pass)
		}
	}
	return r
}

func TestC03Receiver(t *testing.T) {
	ev.Check(t, 10000, 40000, func(rt *rapid.T) {
		c := genRCase(rt)
		var classes []string
		for _, s := range c.steps {
			classes = append(classes, "recv-"+s.kind)
			if s.authz != "" && s.kind == "auth" {
				classes = append(classes, "recv-auth-with-authorization-identity")
			}
		}
		if c.nilPerm {
			classes = append(classes, "recv-no-permission-callback")
		}
		if c.cancelAt >= 0 {
			classes = append(classes, "recv-context-ends-mid-exchange")
		}
		ev.Case(len(c.steps) >= 2, c.String(), classes...)
		r := checkReceiver(rt, c)
		if r.authn {
			ev.Class("receiver-authenticated")
		}
	})
}

// TestC03Regress: concrete exchanges that once authenticated wrongly, plus the
// floor for the many-round mechanism (a fully honest exchange authenticates).
func TestC03Regress(t *testing.T) {
	ev.Begin(t)
	honest := func(n int) []action {
		var a []action
		for i := 0; i < n; i++ {
			a = append(a, action{kind: "honest"})
		}
		return a
	}
	for _, m := range roundsNames {
		n := roundsOf(m)
		c := icase{prefs: []string{m, "PLAIN"}, advertised: []string{m}, actions: honest(n + 2)}
		ev.Case(true, c.String(), "honest-floor-rounds")
		if r := checkInitiator(t, c); !r.authn {
			t.Fatalf("harness: the fully honest %s exchange did not authenticate (err=%v log=%v)", m, r.err, r.log)
		}
		// fixed 82e644a: <success/> carrying the challenge that makes the
		// initiator produce its last message (the credentials), which is then
		// never sent
		c = icase{prefs: []string{m}, advertised: []string{m}, actions: append(honest(n-1), action{kind: "honest-as-success"})}
		ev.Case(true, c.String(), "regress-success-before-final-message")
		checkInitiator(t, c)
		// the same number of round trips ended by a bare success
		for k := 0; k <= n; k++ {
			c = icase{prefs: []string{m}, advertised: []string{m}, actions: append(honest(k), action{kind: "empty-success"})}
			ev.Case(true, c.String(), "rounds-then-bare-success")
			checkInitiator(t, c)
		}
	}
}
