package c03

// Receiving side with a multi-step mechanism: the user name travels in
// <auth/>, the password in the following <response/>.  (None of the
// dependency's mechanisms is multi-step on the server side without salted
// credentials, so the harness brings its own; PLAIN is configured next to it.)
// The reference model is the SASL profile of RFC 6120 6.4 on the receiving
// side: an <auth/> starts a new exchange with the mechanism it names (unknown
// or unoffered: invalid-mechanism, the negotiation is over), a <response/> is
// only meaningful inside an exchange, and success is signalled exactly when the
// exchange in progress completes with credentials the callback accepts.

import (
	"bytes"
	"context"
	"encoding/base64"
	"fmt"
	"strings"
	"testing"

	"mellium.im/sasl"
	"pgregory.net/rapid"

	"mellium.im/xmpp"
	"mellium.im/xmpp/verifharness/internal/ev"
	"mellium.im/xmpp/verifharness/internal/wire"
)

const twoStepName = "X-VERIF-TWOSTEP"

// twoStep: server side only (the harness plays the client by hand).
var twoStep = sasl.Mechanism{
	Name: twoStepName,
	Start: func(m *sasl.Negotiator) (bool, []byte, interface{}, error) {
		return false, nil, nil, sasl.ErrTooManySteps
	},
	Next: func(m *sasl.Negotiator, challenge []byte, data interface{}) (bool, []byte, interface{}, error) {
		if data == nil {
			// first step: the user name; ask for the password
			return true, []byte("password?"), append([]byte{}, challenge...), nil
		}
		user := data.([]byte)
		pass := append([]byte{}, challenge...)
		if m.Permissions(sasl.Credentials(func() ([]byte, []byte, []byte) { return user, pass, nil })) {
			return false, nil, nil, nil
		}
		return false, nil, nil, sasl.ErrAuthn
	},
}

type mstep struct {
	kind    string // auth2 authplain authunknown response response-empty abort
	mech    string // authunknown: the name used
	user    string
	pass    string
	verdict bool
}

type mcase struct{ steps []mstep }

func (c mcase) String() string {
	var sb strings.Builder
	sb.WriteString("receiver configured=[" + twoStepName + " PLAIN] steps:")
	for _, s := range c.steps {
		fmt.Fprintf(&sb, " [%s mech=%q user=%q pass=%q verdict=%v]", s.kind, s.mech, s.user, s.pass, s.verdict)
	}
	return sb.String()
}

func genMCase(t *rapid.T) mcase {
	var c mcase
	n := rapid.IntRange(1, 5).Draw(t, "nsteps")
	for i := 0; i < n; i++ {
		s := mstep{kind: rapid.SampledFrom([]string{"auth2", "auth2", "auth2", "response", "response", "response", "authplain", "authunknown", "authunknown", "response-empty", "abort"}).Draw(t, "kind")}
		s.mech = rapid.SampledFrom([]string{"X-BOGUS", "SCRAM-SHA-1", "", "x-verif-twostep", "ANONYMOUS"}).Draw(t, "mech")
		s.user = rapid.SampledFrom([]string{"juliet", "juliet", "romeo"}).Draw(t, "user")
		s.pass = rapid.SampledFrom([]string{password, password, "wrong"}).Draw(t, "pass")
		s.verdict = rapid.IntRange(0, 3).Draw(t, "verdict") > 0
		c.steps = append(c.steps, s)
	}
	return c
}

type mresult struct {
	err        error
	authn      bool
	calls      []permCall
	successes  int
	challenges int
	log        []string
	panicked   string
	out        []byte
	wantAuthn  bool
	wantCall   *permCall // the credentials the deciding permission call must carry
}

func runMulti(c mcase) mresult {
	var res mresult
	step := 0
	verdictFor := false
	phase := "header1"
	// reference model
	done := false    // the negotiation is over as far as the profile goes
	inExchange := "" // user name of the two-step exchange in progress
	exchange := false
	b64 := func(s string) string {
		if s == "" {
			return "="
		}
		return base64.StdEncoding.EncodeToString([]byte(s))
	}
	peer := wire.NewReactive(func(p *wire.Reactive, fresh []byte) []byte {
		res.challenges += bytes.Count(fresh, []byte("<challenge"))
		switch phase {
		case "header1":
			phase = "sasl"
			return []byte(header(client.String(), server.String(), ""))
		case "sasl":
			if bytes.Contains(fresh, []byte("<success")) {
				phase = "done"
				return []byte(header(client.String(), server.String(), ""))
			}
			if step >= len(c.steps) {
				return nil
			}
			s := c.steps[step]
			step++
			verdictFor = s.verdict
			res.log = append(res.log, s.kind)
			decide := func(user, pass string) {
				if s.verdict {
					res.wantAuthn = true
				}
				res.wantCall = &permCall{user, pass, s.verdict}
				done = true
			}
			switch s.kind {
			case "auth2":
				if !done {
					exchange, inExchange = true, s.user
				}
				return []byte(`<auth xmlns="` + saslNS + `" mechanism="` + twoStepName + `">` + b64(s.user) + `</auth>`)
			case "authplain":
				if !done {
					decide(s.user, s.pass)
				}
				return []byte(`<auth xmlns="` + saslNS + `" mechanism="PLAIN">` + b64("\x00"+s.user+"\x00"+s.pass) + `</auth>`)
			case "authunknown":
				done = true // invalid-mechanism: nothing after it can authenticate
				return []byte(`<auth xmlns="` + saslNS + `" mechanism="` + s.mech + `">` + b64(s.user) + `</auth>`)
			case "response", "response-empty":
				pass := s.pass
				if s.kind == "response-empty" {
					pass = ""
				}
				if !done {
					if exchange {
						decide(inExchange, pass)
					} else {
						done = true // a response outside an exchange: malformed-request
					}
				}
				if s.kind == "response-empty" {
					return []byte(`<response xmlns="` + saslNS + `"/>`)
				}
				return []byte(`<response xmlns="` + saslNS + `">` + b64(pass) + `</response>`)
			case "abort":
				done = true
				return []byte(`<abort xmlns="` + saslNS + `"/>`)
			}
		}
		return nil
	})
	perm := func(n *sasl.Negotiator) bool {
		u, pw, _ := n.Credentials()
		res.calls = append(res.calls, permCall{string(u), string(pw), verdictFor})
		return verdictFor
	}
	var s *xmpp.Session
	res.panicked = ev.Guard(func() {
		s, res.err = xmpp.ReceiveSession(context.Background(), peer.Conn, xmpp.Secure,
			xmpp.NewNegotiator(func(*xmpp.Session, *xmpp.StreamConfig) xmpp.StreamConfig {
				return xmpp.StreamConfig{Features: []xmpp.StreamFeature{xmpp.SASLServer(perm, twoStep, sasl.Plain)}}
			}))
	})
	if s != nil {
		res.authn = s.State()&xmpp.Authn != 0
	}
	res.out = peer.Conn.Output()
	res.successes = bytes.Count(res.out, []byte("<success"))
	return res
}

func TestC03ReceiverMultiStep(t *testing.T) {
	ev.Check(t, 6000, 30000, func(rt *rapid.T) {
		c := genMCase(rt)
		var classes []string
		restarts := 0
		for i, s := range c.steps {
			classes = append(classes, "recv2-"+s.kind)
			if i > 0 && strings.HasPrefix(s.kind, "auth") && c.steps[i-1].kind == "auth2" {
				restarts++
			}
		}
		if restarts > 0 {
			classes = append(classes, "recv2-auth-restarts-an-exchange-in-progress")
		}
		ev.Case(len(c.steps) >= 2, c.String(), classes...)
		r := runMulti(c)
		fail := func(format string, args ...any) {
			rt.Helper()
			ev.Failf(rt, "%s\npeer log: %v\nresult: err=%v authn=%v permission-callback calls=%v success elements=%d challenges=%d reference-expects-authn=%v\nserver output: %q\n%s",
				c.String(), r.log, r.err, r.authn, r.calls, r.successes, r.challenges, r.wantAuthn, r.out, fmt.Sprintf(format, args...))
		}
		if r.panicked != "" {
			fail("%s", r.panicked)
		}
		if r.authn && !r.wantAuthn {
			fail("marked authenticated although, by the SASL profile, no exchange completed with accepted credentials (an <auth/> naming a mechanism that was not offered ends the negotiation; a <response/> belongs to the exchange its <auth/> started)")
		}
		if !r.authn && r.wantAuthn {
			fail("a completed exchange with accepted credentials did not authenticate")
		}
		if (r.successes > 0) != r.authn {
			fail("<success/> written %d times but authn=%v", r.successes, r.authn)
		}
		if r.authn {
			ev.Class("receiver-authenticated-multistep")
			if len(r.calls) == 0 {
				fail("authenticated but the permission callback was never asked")
			}
			last := r.calls[len(r.calls)-1]
			if r.wantCall != nil && (last.user != r.wantCall.user || last.pass != r.wantCall.pass) {
				fail("authenticated for the credentials (%q, %q); the exchange that completed carried (%q, %q)", last.user, last.pass, r.wantCall.user, r.wantCall.pass)
			}
			if !last.verdict {
				fail("authenticated although the permission callback's last verdict was false")
			}
		}
	})
}
