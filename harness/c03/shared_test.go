package c03

// One feature value, several sessions at the same time (a client with several
// connections, a server dialling out, a reconnect overtaking an old attempt all
// configure their sessions from the same xmpp.SASL(...) value).  What one
// session's receiving entity advertised is that session's alone: the mechanism
// a session selects is one its own peer offered, whatever the other sessions'
// peers offered in the meantime.
//
// The harness owns the schedule: session A reads its peer's features list up
// to the end of <mechanisms/> and is then kept waiting for </stream:features>;
// session B (and C) run until they have sent their <auth/>; only then does A's
// list end.

import (
	"bytes"
	"context"
	"fmt"
	"strings"
	"sync"
	"testing"
	"time"

	"mellium.im/sasl"
	"pgregory.net/rapid"

	"mellium.im/xmpp"
	"mellium.im/xmpp/stanza"
	"mellium.im/xmpp/verifharness/internal/ev"
	"mellium.im/xmpp/verifharness/internal/wire"
)

type sharedCase struct {
	prefs      []string
	advertised [][]string // per session; session 0 is the one kept waiting
	ownFeature bool       // control: every session builds its own feature value
}

func (c sharedCase) String() string {
	return fmt.Sprintf("sessions sharing one xmpp.SASL value (each its own: %v) prefs=%v; advertised to the session kept waiting=%v, to the others=%v", c.ownFeature, c.prefs, c.advertised[0], c.advertised[1:])
}

func genSharedCase(t *rapid.T) sharedCase {
	var c sharedCase
	names := []string{"PLAIN", "SCRAM-SHA-1", "SCRAM-SHA-256"}
	perm := rapid.Permutation(names).Draw(t, "perm")
	c.prefs = perm[:rapid.IntRange(2, 3).Draw(t, "nprefs")]
	n := rapid.IntRange(2, 3).Draw(t, "nsessions")
	for i := 0; i < n; i++ {
		var adv []string
		for k := rapid.IntRange(1, 3).Draw(t, "nadv"); k > 0; k-- {
			adv = append(adv, rapid.SampledFrom(append([]string{"X-OTHER"}, names...)).Draw(t, "adv"))
		}
		c.advertised = append(c.advertised, adv)
	}
	c.ownFeature = rapid.IntRange(0, 7).Draw(t, "ownFeature") == 0
	return c
}

type sharedSession struct {
	conn   *wire.Conn
	parked chan struct{} // closed-and-replaced each time the library waits for input
	mu     sync.Mutex
	done   chan struct{}
	err    error
	panic  string
}

func (s *sharedSession) waitParked(d time.Duration) bool {
	s.mu.Lock()
	ch := s.parked
	s.mu.Unlock()
	select {
	case <-ch:
		return true
	case <-s.done:
		return true
	case <-time.After(d):
		return false
	}
}

func (s *sharedSession) rearm() {
	s.mu.Lock()
	s.parked = make(chan struct{})
	s.mu.Unlock()
}

func mechList(adv []string) string {
	var sb strings.Builder
	sb.WriteString(`<mechanisms xmlns="` + saslNS + `">`)
	for _, m := range adv {
		sb.WriteString(`<mechanism>` + m + `</mechanism>`)
	}
	sb.WriteString(`</mechanisms>`)
	return sb.String()
}

func authMechOf(out []byte) (string, bool) {
	i := bytes.Index(out, []byte("<auth"))
	if i < 0 {
		return "", false
	}
	items, _, _ := wire.ParseStream(out, true, stanza.NSClient)
	for _, el := range wire.Elements(items) {
		if el.Name.Local == "auth" {
			m, _ := el.Get("mechanism")
			return m, true
		}
	}
	return "", false // not complete yet
}

func checkShared(t failer, c sharedCase) (interleaved bool) {
	t.Helper()
	fail := func(format string, args ...any) {
		t.Helper()
		ev.Failf(t, "%s\n%s", c.String(), fmt.Sprintf(format, args...))
	}
	var ms []sasl.Mechanism
	for _, p := range c.prefs {
		ms = append(ms, allMechs[p])
	}
	shared := xmpp.SASL("", password, ms...)
	var sessions []*sharedSession
	start := func(i int, initial string) *sharedSession {
		s := &sharedSession{conn: wire.NewConn(), parked: make(chan struct{}), done: make(chan struct{})}
		s.conn.OnIdleRead = func() bool {
			s.mu.Lock()
			select {
			case <-s.parked:
			default:
				close(s.parked)
			}
			s.mu.Unlock()
			return false
		}
		s.conn.FeedString(initial) // (before the library reads: it waits for input only once this is consumed)
		feat := shared
		if c.ownFeature {
			feat = xmpp.SASL("", password, ms...)
		}
		go func() {
			defer close(s.done)
			s.panic = ev.Guard(func() {
				_, s.err = xmpp.NewSession(context.Background(), server, client, s.conn, xmpp.Secure,
					xmpp.NewNegotiator(func(*xmpp.Session, *xmpp.StreamConfig) xmpp.StreamConfig {
						return xmpp.StreamConfig{Features: []xmpp.StreamFeature{feat}}
					}))
			})
		}()
		sessions = append(sessions, s)
		return s
	}
	defer func() {
		for _, s := range sessions {
			s.conn.CloseInput()
			s.conn.Close()
		}
		for _, s := range sessions {
			select {
			case <-s.done:
			case <-time.After(10 * time.Second):
			}
		}
	}()
	const wait = 5 * time.Second
	// settle: the session has sent its <auth/>, has given up, or has consumed
	// everything fed so far and waits for more
	settle := func(s *sharedSession) bool {
		deadline := time.Now().Add(wait)
		for time.Now().Before(deadline) {
			if _, sent := authMechOf(s.conn.Output()); sent {
				return true
			}
			select {
			case <-s.done:
				return true
			default:
			}
			if s.waitParked(20*time.Millisecond) && s.conn.PendingInput() == 0 {
				if _, sent := authMechOf(s.conn.Output()); sent || !bytes.Contains(s.conn.Output(), []byte("<auth")) {
					return true
				}
			}
			s.rearm()
		}
		return false
	}
	// session 0: header, the features list up to the end of <mechanisms/>
	a := start(0, header(server.String(), client.String(), "a1")+`<stream:features>`+mechList(c.advertised[0]))
	if !settle(a) {
		ev.Class("inconclusive-timeout")
		return false
	}
	if _, sent := authMechOf(a.conn.Output()); sent {
		fail("the session sent <auth/> before its peer's features list was complete")
	}
	// the other sessions: complete lists; they run until their <auth/> is out
	// (or until they give up or wait for more: nothing acceptable offered)
	for i := 1; i < len(c.advertised); i++ {
		b := start(i, header(server.String(), client.String(), fmt.Sprintf("b%d", i))+`<stream:features>`+mechList(c.advertised[i])+`</stream:features>`)
		if !settle(b) {
			ev.Class("inconclusive-timeout")
			return false
		}
	}
	// now session 0's list ends
	a.rearm()
	a.conn.FeedString(`</stream:features>`)
	if !settle(a) {
		ev.Class("inconclusive-timeout")
		return false
	}
	for i, s := range sessions {
		got, sent := authMechOf(s.conn.Output())
		w := expectedMech(icase{prefs: c.prefs, advertised: c.advertised[i]})
		switch {
		case sent && w == "":
			fail("session %d sent <auth mechanism=%q/> although its peer offered %v, none of which is configured", i, got, c.advertised[i])
		case sent && got != w:
			offered := false
			for _, m := range c.advertised[i] {
				if m == got {
					offered = true
				}
			}
			if !offered {
				fail("session %d sent <auth mechanism=%q/>: its own peer offered %v (another session's peer offered that mechanism)", i, got, c.advertised[i])
			}
			fail("session %d sent <auth mechanism=%q/>, the most preferred mechanism its peer offered is %q (offered %v)", i, got, w, c.advertised[i])
		case !sent && w != "":
			select {
			case <-s.done:
				fail("session %d gave up (%v) although its peer offered the configured mechanism %q", i, s.err, w)
			default:
			}
		}
		if s.panic != "" {
			fail("session %d: %s", i, s.panic)
		}
	}
	return true
}

func TestC03SharedFeature(t *testing.T) {
	ev.Check(t, 1500, 15000, func(rt *rapid.T) {
		c := genSharedCase(rt)
		differ := false
		for _, adv := range c.advertised[1:] {
			if strings.Join(adv, ",") != strings.Join(c.advertised[0], ",") {
				differ = true
			}
		}
		classes := []string{"shared-feature-value"}
		if differ {
			classes = append(classes, "sessions-offered-different-mechanisms")
		}
		if c.ownFeature {
			classes = append(classes, "control-own-feature-value")
		}
		ev.Case(differ && !c.ownFeature, c.String(), classes...)
		checkShared(rt, c)
	})
}
