package c03

// An initiating session whose feature list holds the feature built by
// xmpp.SASLServer (the roles are decided by the session, not by how the
// feature value was made): it is still the initiating side, so it is marked
// authenticated only after it selected a mechanism, ran it and the receiver
// signalled success; it never writes the receiver's elements.

import (
	"bytes"
	"context"
	"fmt"
	"strings"
	"testing"

	"mellium.im/sasl"
	"pgregory.net/rapid"

	"mellium.im/xmpp"
	"mellium.im/xmpp/verifharness/internal/ev"
	"mellium.im/xmpp/verifharness/internal/wire"
)

func TestC03ServerFeatureOnInitiator(t *testing.T) {
	ev.Check(t, 1500, 8000, func(rt *rapid.T) {
		n := rapid.IntRange(1, 3).Draw(rt, "nreplies")
		var replies []string
		for i := 0; i < n; i++ {
			replies = append(replies, rapid.SampledFrom([]string{"auth", "auth", "success", "failure", "challenge", "response", "eof"}).Draw(rt, "reply"))
		}
		desc := fmt.Sprintf("initiating session configured with the xmpp.SASLServer feature (callback accepts everything); after advertising PLAIN the peer sends %v", replies)
		ev.Case(true, desc, "server-feature-on-initiator")
		plain := b64([]byte("\x00juliet\x00" + password))
		step := 0
		phase := "header"
		var afterAuth []string // what the peer sent after the initiator's <auth/>
		sawAuth := false
		peer := wire.NewReactive(func(p *wire.Reactive, fresh []byte) []byte {
			if bytes.Contains(fresh, []byte("<auth")) {
				sawAuth = true
			}
			switch phase {
			case "header":
				phase = "sasl"
				return []byte(header(server.String(), client.String(), "s1") + `<stream:features><mechanisms xmlns="` + saslNS + `"><mechanism>PLAIN</mechanism></mechanisms></stream:features>`)
			case "sasl":
				if step >= len(replies) {
					return nil
				}
				r := replies[step]
				step++
				if sawAuth {
					afterAuth = append(afterAuth, r)
				}
				switch r {
				case "auth":
					return []byte(`<auth xmlns="` + saslNS + `" mechanism="PLAIN">` + plain + `</auth>`)
				case "success":
					return []byte(`<success xmlns="` + saslNS + `"/>`)
				case "failure":
					return []byte(`<failure xmlns="` + saslNS + `"><not-authorized/></failure>`)
				case "challenge":
					return []byte(`<challenge xmlns="` + saslNS + `">=</challenge>`)
				case "response":
					return []byte(`<response xmlns="` + saslNS + `">` + plain + `</response>`)
				}
				return nil
			}
			return nil
		})
		var s *xmpp.Session
		var err error
		if p := ev.Guard(func() {
			s, err = xmpp.NewSession(context.Background(), server, client, peer.Conn, xmpp.Secure,
				xmpp.NewNegotiator(func(*xmpp.Session, *xmpp.StreamConfig) xmpp.StreamConfig {
					return xmpp.StreamConfig{Features: []xmpp.StreamFeature{xmpp.SASLServer(func(*sasl.Negotiator) bool { return true }, sasl.Plain)}}
				}))
		}); p != "" {
			ev.Failf(rt, "%s\n%s", desc, p)
		}
		out := peer.Conn.Output()
		authn := s != nil && s.State()&xmpp.Authn != 0
		fail := func(format string, args ...any) {
			rt.Helper()
			ev.Failf(rt, "%s\nresult: err=%v authn=%v\ninitiator wrote: %q\n%s", desc, err, authn, out, fmt.Sprintf(format, args...))
		}
		for _, el := range []string{"<success", "<challenge", "<failure"} {
			if bytes.Contains(out, []byte(el)) {
				fail("the initiating entity wrote a %s/> element (that is the receiving entity's part of the exchange)", el)
			}
		}
		if authn {
			ev.Class("server-feature-on-initiator-authenticated")
			if !bytes.Contains(out, []byte("<auth")) {
				fail("marked authenticated although the initiating entity never selected a mechanism (no <auth/> sent)")
			}
			if len(afterAuth) == 0 || afterAuth[0] != "success" {
				fail("marked authenticated although the receiving entity did not answer the <auth/> with <success/> (it sent %s)", strings.Join(afterAuth, ", "))
			}
		}
	})
}
