// C08, byte level: arbitrary bytes after the stream header.  The expected
// framing is computed by a small reference model of the serve loop that runs
// over an independent encoding/xml pass of the same bytes; the handler's view
// (start element, readable tokens, end of element) and Serve's outcome are
// compared with it.
package c08

import (
	"bytes"
	"encoding/xml"
	"errors"
	"fmt"
	"strings"
	"testing"

	"pgregory.net/rapid"

	"mellium.im/xmpp"
	"mellium.im/xmpp/jid"
	"mellium.im/xmpp/stanza"
	"mellium.im/xmpp/stream"
	"mellium.im/xmpp/verifharness/internal/ev"
	"mellium.im/xmpp/verifharness/internal/wire"
	"mellium.im/xmpp/verifharness/internal/xt"
)

type bexp struct {
	start         xml.StartElement
	toks          []xml.Token // after the start element: through the end tag, or up to the offending construct
	complete      bool
	why           string // incomplete: what stopped it
	fromAmbiguous bool
}

func xmlSpace(b []byte) bool { return len(bytes.TrimLeft(b, " \t\r\n")) == 0 }

// refServe is the reference model of the serve loop's framing.
// end: eof (input exhausted, nothing asserted) close streamerr error replyfail
func refServe(header string, input []byte, ns, ownBare string) (want []bexp, end, cond string) {
	d := xml.NewDecoder(strings.NewReader(header + string(input)))
	for { // the stream header
		tok, err := d.Token()
		if err != nil {
			panic("harness: header: " + err.Error())
		}
		if _, ok := tok.(xml.StartElement); ok {
			break
		}
	}
	total := int64(len(header) + len(input))
	for {
		tok, err := d.Token()
		if err != nil {
			if d.InputOffset() >= total {
				return want, "eof", ""
			}
			return want, "error", ""
		}
		switch t := tok.(type) {
		case xml.CharData:
			if !xmlSpace(t) {
				return want, "error", ""
			}
		case xml.Comment, xml.ProcInst, xml.Directive:
			return want, "error", ""
		case xml.EndElement:
			return want, "close", ""
		case xml.StartElement:
			if t.Name.Space == wire.StreamNS {
				if t.Name.Local != "error" {
					return want, "error", ""
				}
				// a complete, well-formed <stream:error/> with exactly one condition
				// element in the streams namespace is returned as such
				n, err := xt.FromReader(d, &t)
				if err != nil {
					return want, "error", ""
				}
				var conds []string
				for _, c := range n.Children {
					if c.IsText() {
						continue
					}
					if c.Name.Space != "urn:ietf:params:xml:ns:xmpp-streams" {
						continue // an application-specific condition (RFC 6120 4.9.2)
					}
					if c.Name.Local != "text" {
						conds = append(conds, c.Name.Local)
					}
				}
				if len(conds) != 1 {
					return want, "error", ""
				}
				return want, "streamerr", conds[0]
			}
			e := bexp{start: t.Copy()}
			// own bare address in from
			if stanza.Is(t.Name, ns) {
				plain, other := 0, 0
				for _, a := range t.Attr {
					if a.Name.Local == "from" {
						if a.Name.Space == "" {
							plain++
						} else {
							other++
						}
					}
				}
				_ = other
				if plain > 1 {
					e.fromAmbiguous = true
				}
				if plain == 1 {
					for i, a := range e.start.Attr {
						if a.Name.Local == "from" && a.Name.Space == "" && a.Value == ownBare {
							e.start.Attr[i].Value = ""
						}
					}
				}
			}
			depth := 1
			for depth > 0 {
				tok, err := d.Token()
				if err != nil {
					e.why = "malformed XML: " + err.Error()
					break
				}
				bad := ""
				switch it := tok.(type) {
				case xml.StartElement:
					if it.Name.Space == wire.StreamNS {
						bad = "stream-namespace element " + it.Name.Local
					}
					depth++
				case xml.EndElement:
					depth--
				case xml.Comment:
					bad = "comment"
				case xml.ProcInst:
					bad = "processing instruction"
				case xml.Directive:
					bad = "directive"
				}
				if bad != "" {
					e.why = "nested " + bad
					break
				}
				e.toks = append(e.toks, xml.CopyToken(tok))
			}
			e.complete = depth == 0
			want = append(want, e)
			if !e.complete {
				return want, "error", ""
			}
			switch replyCannotBeAddressed(t) {
			case "yes":
				// the recorder never answers: the library owes a get/set IQ a default
				// reply, which it cannot address when the from attribute is not an
				// address; Serve then ends with that error (reply accounting is C07's
				// subject): the framing up to here is all that is asserted
				return want, "replyfail", ""
			case "either":
				// duplicate from attributes (not well-formed, but not rejected by the
				// decoder) of which only some are addresses: which of them the reply is
				// addressed to is not specified, so the stream may end here or go on;
				// the framing up to here is asserted, nothing about what follows
				return want, "replyeither", ""
			}
		}
	}
}

func replyCannotBeAddressed(t xml.StartElement) string {
	if t.Name.Local != "iq" || (t.Name.Space != stanza.NSClient && t.Name.Space != stanza.NSServer) {
		return "no"
	}
	needs, noNeed, badFrom, goodFrom := false, false, false, false
	// (only unqualified attributes are the stanza's own; with duplicates any of
	// them may be the one looked at)
	for _, a := range t.Attr {
		if a.Name.Space != "" {
			continue
		}
		switch a.Name.Local {
		case "type":
			if a.Value == "get" || a.Value == "set" {
				needs = true
			} else {
				noNeed = true
			}
		case "from":
			if _, err := jid.Parse(a.Value); a.Value != "" && err != nil {
				badFrom = true
			} else {
				goodFrom = true
			}
		}
	}
	switch {
	case needs && badFrom && (goodFrom || noNeed):
		// duplicate from or type attributes that disagree: which of them counts
		// is not specified
		return "either"
	case needs && badFrom:
		return "yes"
	}
	return "no"
}

func startNoFrom(s xml.StartElement) string {
	n := xt.Node{Name: s.Name}
	for _, a := range s.Attr {
		if a.Name.Local != "from" {
			n.Attr = append(n.Attr, a)
		}
	}
	return n.Canon()
}

type bcase struct {
	s2s        bool
	local      jid.JID
	origin     jid.JID
	negotiated string
	input      []byte
	progs      []readProg
}

func (bc bcase) String() string {
	var sb strings.Builder
	fmt.Fprintf(&sb, "s2s=%v local=%s (session created as %q) input=%q progs=[", bc.s2s, bc.local, bc.origin.String(), bc.input)
	for _, p := range bc.progs {
		fmt.Fprintf(&sb, "%s:%d:%d ", p.mode, p.k, p.extra)
	}
	sb.WriteString("]")
	return sb.String()
}

func checkBytes(t interface {
	Helper()
	Fatalf(string, ...any)
}, bc bcase) (invocations int, end string) {
	t.Helper()
	fail := func(format string, args ...any) {
		t.Helper()
		ev.Failf(t, "%s\n%s", bc.String(), fmt.Sprintf(format, args...))
	}
	opts := wire.SessionOpts{Local: bc.local, Origin: bc.origin, Negotiated: bc.negotiated}
	if bc.s2s {
		opts.State |= xmpp.S2S
	}
	ns := opts.NS()
	// (the model only needs the namespace context of the stream header, not what
	// a negotiated session exchanges after it)
	want, end, cond := refServe(wire.SessionOpts{State: opts.State}.Header(), bc.input, ns, bc.local.Bare().String())

	conn := wire.NewConn()
	conn.FeedString(opts.Header())
	conn.Feed(bc.input)
	conn.CloseInput()
	s, err := wire.ReadySession(conn, opts)
	if err != nil {
		t.Fatalf("harness: ReadySession: %v", err)
	}
	rec := &recorder{progs: bc.progs}
	var serveErr error
	if p := ev.Guard(func() { serveErr = s.Serve(rec) }); p != "" {
		fail("Serve panicked: %s", p)
	}
	if len(rec.leaks) > 0 {
		fail("a handler that kept the reader it was given could read past the end of its element: %s", strings.Join(rec.leaks, "; "))
	}
	if end == "replyeither" && len(rec.inv) > len(want) {
		rec.inv = rec.inv[:len(want)]
	}
	if len(rec.inv) != len(want) {
		var names []string
		for _, iv := range rec.inv {
			names = append(names, iv.start.Name.Local)
		}
		fail("handler invoked %d times %v, the reference framing has %d top-level elements before the stream ends (%s); serve error: %v", len(rec.inv), names, len(want), end, serveErr)
	}
	for i, iv := range rec.inv {
		w := want[i]
		if w.fromAmbiguous {
			if got, wantc := startNoFrom(iv.start), startNoFrom(w.start); got != wantc {
				fail("invocation %d: start element %s, expected %s (from attributes not compared)", i, got, wantc)
			}
		} else if got, wantc := startCanon(iv.start), startCanon(w.start); got != wantc {
			fail("invocation %d: start element %s, expected %s", i, got, wantc)
		}
		for _, tok := range iv.toks {
			if f := forbiddenToken(tok); f != "" {
				fail("invocation %d: handler observed a %s", i, f)
			}
		}
		prog := readProg{mode: "all"}
		if i < len(bc.progs) {
			prog = bc.progs[i]
		}
		gotC, wantC := xt.CanonTokens(iv.toks), xt.CanonTokens(w.toks)
		switch {
		case prog.mode == "none":
			if len(iv.toks) != 0 {
				fail("invocation %d: read tokens without asking", i)
			}
		case !w.complete:
			if !canonPrefix(gotC, wantC) {
				fail("invocation %d (element cut short by %s): handler read %s which is not a prefix of %s", i, w.why, gotC, wantC)
			}
			if iv.sawEOF {
				fail("invocation %d: an element cut short by %s was presented as complete (EOF)", i, w.why)
			}
		case prog.mode == "some":
			if !canonPrefix(gotC, wantC) {
				fail("invocation %d: handler read %s which is not a prefix of %s", i, gotC, wantC)
			}
			if len(iv.toks) > len(w.toks) {
				fail("invocation %d: handler read %d tokens, element has only %d", i, len(iv.toks), len(w.toks))
			}
		default:
			if gotC != wantC {
				fail("invocation %d: handler read %s, expected exactly %s (through the end tag)", i, gotC, wantC)
			}
			if !iv.sawEOF {
				fail("invocation %d: no EOF after the end tag (errors: %v)", i, iv.errs)
			}
			for _, a := range iv.afterEOF {
				if a != "<nil>,EOF" {
					fail("invocation %d: read after EOF returned %s, expected nil, EOF", i, a)
				}
			}
		}
	}
	switch end {
	case "close":
		if serveErr != nil {
			fail("peer closed its stream but Serve returned %v", serveErr)
		}
	case "streamerr":
		var se stream.Error
		if !errors.As(serveErr, &se) {
			fail("received stream error %q but Serve returned %T %v", cond, serveErr, serveErr)
		}
		if se.Err != cond {
			fail("received stream error %q but Serve returned condition %q", cond, se.Err)
		}
	case "error":
		if serveErr == nil {
			fail("stream-level construct or malformed XML in the input but Serve returned nil")
		}
	}
	if st := s.State(); st&xmpp.InputStreamClosed == 0 {
		fail("Serve returned but the input stream is not marked closed (state %v)", st)
	}
	return len(want), end
}

// hostile snippets spliced into otherwise grammatical input
var snippets = []string{
	`<!--x-->`, `<?p q?>`, `<!DOCTYPE a>`, `</stream:stream>`, `<stream:error><conflict xmlns="urn:ietf:params:xml:ns:xmpp-streams"/></stream:error>`,
	`<stream:error/>`, `<stream:error><a xmlns="urn:x"/></stream:error>`, `<stream:error><not-well-formed xmlns="urn:ietf:params:xml:ns:xmpp-streams"/><escape-your-data xmlns="http://example.org/ns"/></stream:error>`,
	`<stream:error><too-many-sessions xmlns="urn:verif:app"/><policy-violation xmlns="urn:ietf:params:xml:ns:xmpp-streams"/><text xmlns="urn:ietf:params:xml:ns:xmpp-streams">t</text></stream:error>`, `&#x20;`, `&#xA0;`, `<![CDATA[ ]]>`, `<![CDATA[x]]>`, `]]>`, `&amp;`, `&lt;`,
	`<a xmlns:stream="urn:verif:notstream"><stream:error/></a>`, `<a xmlns:foo="http://etherx.jabber.org/streams"><foo:error/></a>`,
	`<error xmlns="http://etherx.jabber.org/streams"/>`, `<foo:bar xmlns:foo="http://etherx.jabber.org/streams"/>`,
	`<iq xmlns:x="urn:verif:x" x:from="test@example.net" from="test@example.net" type="get" id="q"><p xmlns="urn:verif:x"/></iq>`,
	`<message from="test@example.net" xmlns:x="urn:verif:x" x:from="test@example.net"/>`,
	`<presence from="other@example.com" from="test@example.net"/>`,
	`<iq type="get" id="dup" from="other@example.com" from="me@"/>`, `<iq type="get" id="dup2" from="@" type="result"/>`, `<iq type="set" id="dup" from="@" from="other@example.com"/>`,
	`<message xml:lang="en" from='test@example.net'>t</message>`,
	` `, "\n", "\r\n", "\t", `<`, `>`, `/>`, `</`, `"`, `<a>`, `</a>`, `<a/>`, "\x00", "\xff", "\u2028",
	`<stream:stream xmlns:stream="http://etherx.jabber.org/streams" version="1.0">`,
	`<iq type="result" id="zz"/>`, `<iq type="error" id=""/>`, `<message type="error" id="zz"><error/></message>`,
}

func genBytes(t *rapid.T) bcase {
	tc := genCase(t)
	bc := bcase{s2s: tc.s2s, local: tc.local, origin: tc.origin, negotiated: tc.negotiated}
	in := []byte(tc.input())
	nm := rapid.IntRange(0, 4).Draw(t, "mutations")
	for i := 0; i < nm; i++ {
		switch rapid.IntRange(0, 3).Draw(t, "mut") {
		case 0: // splice a snippet
			pos := rapid.IntRange(0, len(in)).Draw(t, "pos")
			sn := rapid.SampledFrom(snippets).Draw(t, "snippet")
			in = append(in[:pos:pos], append([]byte(sn), in[pos:]...)...)
		case 1: // delete a span
			if len(in) > 0 {
				a := rapid.IntRange(0, len(in)-1).Draw(t, "a")
				l := rapid.IntRange(1, 12).Draw(t, "l")
				if a+l > len(in) {
					l = len(in) - a
				}
				in = append(in[:a:a], in[a+l:]...)
			}
		case 2: // duplicate a span
			if len(in) > 0 {
				a := rapid.IntRange(0, len(in)-1).Draw(t, "a")
				l := rapid.IntRange(1, 40).Draw(t, "l")
				if a+l > len(in) {
					l = len(in) - a
				}
				span := append([]byte(nil), in[a:a+l]...)
				pos := rapid.IntRange(0, len(in)).Draw(t, "pos")
				in = append(in[:pos:pos], append(span, in[pos:]...)...)
			}
		case 3: // overwrite one byte
			if len(in) > 0 {
				a := rapid.IntRange(0, len(in)-1).Draw(t, "a")
				in[a] = rapid.SampledFrom([]byte("<>/\"'= &;!?-[]x:\n")).Draw(t, "b")
			}
		}
	}
	bc.input = in
	np := rapid.IntRange(0, 6).Draw(t, "nprogs")
	for i := 0; i < np; i++ {
		pr := genProg(t)
		pr.swallow = "" // the byte-level reference model assumes handlers that return read errors
		pr.retErr = ""  // ... and no errors of their own
		bc.progs = append(bc.progs, pr)
	}
	return bc
}

func TestC08Bytes(t *testing.T) {
	ev.Check(t, 20000, 100000, func(rt *rapid.T) {
		bc := genBytes(rt)
		defer func() {
			if r := recover(); r != nil {
				if s, ok := r.(string); ok && strings.HasPrefix(s, "harness:") {
					rt.Fatalf("%s", s)
				}
				panic(r)
			}
		}()
		// classification needs the reference framing
		opts := wire.SessionOpts{Local: bc.local}
		if bc.s2s {
			opts.State |= xmpp.S2S
		}
		want, end, _ := refServe(opts.Header(), bc.input, opts.NS(), bc.local.Bare().String())
		incomplete := len(want) > 0 && !want[len(want)-1].complete
		ev.Case(len(want) >= 2 || incomplete, bc.String(), "bytes", "bytes-end-"+end)
		if incomplete {
			ev.Class("bytes-element-cut-short")
		}
		checkBytes(rt, bc)
	})
}

// FuzzC08 (thorough tier): coverage-guided bytes against the same model.
func FuzzC08(f *testing.F) {
	for _, sn := range snippets {
		f.Add([]byte(`<message from="test@example.net" type="chat"><body>x</body></message>`+sn+`<iq type="get" id="1"><q xmlns="urn:verif:x"><a>`+sn+`</a></q></iq>`), uint16(0x1234), false)
	}
	f.Add([]byte(` <presence/>`+"\n"+`<a xmlns="urn:verif:x"><b/>t</a></stream:stream>`), uint16(7), true)
	f.Fuzz(func(t *testing.T, in []byte, progBits uint16, s2s bool) {
		if len(in) > 3000 {
			in = in[:3000]
		}
		bc := bcase{s2s: s2s, local: jid.MustParse("test@example.net/r"), input: in}
		modes := []string{"all", "none", "some", "allplus"}
		for i := 0; i < 4; i++ {
			p := readProg{mode: modes[(progBits>>(4*i))&3]}
			p.k = int((progBits>>(4*i+2))&3) + 1
			p.extra = 1
			bc.progs = append(bc.progs, p)
		}
		checkBytes(t, bc)
	})
}
