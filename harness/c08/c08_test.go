// C08 — Handlers see one element at a time; stream-level input never reaches them.
package c08

import (
	"bytes"
	"context"
	"encoding/xml"
	"errors"
	"fmt"
	"io"
	"strings"
	"testing"
	"time"

	"pgregory.net/rapid"

	"mellium.im/xmlstream"
	"mellium.im/xmpp"
	"mellium.im/xmpp/jid"
	"mellium.im/xmpp/stanza"
	"mellium.im/xmpp/stream"
	"mellium.im/xmpp/verifharness/internal/ev"
	"mellium.im/xmpp/verifharness/internal/gen"
	"mellium.im/xmpp/verifharness/internal/wire"
	"mellium.im/xmpp/verifharness/internal/xt"
)

func TestMain(m *testing.M) { ev.Main(m, "C08") }

// ---------------------------------------------------------------- case model

type construct struct {
	kind string // streamerr restart unknownstream strayend comment pi directive text malformed
	raw  string
	cond string // streamerr: condition
	text string // streamerr: text
}

type readProg struct {
	mode  string // none some all allplus
	k     int
	extra int
	// what a handler reading to the end (all, allplus) does when a read fails:
	// "" it returns the error; "stop" it gives up and returns nil; "more" it
	// keeps reading for a while and then returns nil.  The stream may end there
	// with an error or go on, but if it goes on, then with the next top-level
	// element.
	swallow string
	// the handler, having read what its program says, returns an error of its
	// own: "plain" some error, "stanza" a stanza error (for a request it has
	// not answered).  The stream ends there with an error.
	retErr string
}

type item struct {
	kind string // elem ws close construct
	node *xt.Node
	bad  *construct // elem: nested construct (node contains a Raw); construct: top-level
	raw  string
	prog readProg
	// the element's text contains an empty CDATA section
	emptyCDATA bool
}

type tcase struct {
	s2s   bool
	local jid.JID
	// when set: the address the session was created with; local was assigned
	// during negotiation (as resource binding does), origin is somebody else's now
	origin jid.JID
	// "" ready-made session; "initiated" / "received": established through the
	// library's default negotiator (addresses learned from the headers)
	negotiated string
	items      []item
	// the application has closed its output stream before the peer's input is
	// served: replies cannot be written any more, the framing must not change
	outputClosed bool
	// the application has a request of its own outstanding (SendIQ); the item of
	// kind "response" answers it: it goes to the waiting caller, which reads
	// respRead of it before closing it, and never to the handler
	respRead string // none start nested all
	// a second result / error stanza with the id of the answered request follows
	dupResponse bool
}

var conds = []string{"bad-format", "conflict", "host-unknown", "not-authorized", "policy-violation", "system-shutdown", "undefined-condition", "not-well-formed"}

const ownReqID = "own-request-1"

func genConstruct(t *rapid.T, nested bool) *construct {
	kinds := []string{"streamerr", "restart", "unknownstream", "comment", "pi", "directive", "malformed"}
	if !nested {
		kinds = append(kinds, "text", "strayend")
	}
	c := &construct{kind: rapid.SampledFrom(kinds).Draw(t, "construct")}
	switch c.kind {
	case "streamerr":
		c.cond = rapid.SampledFrom(conds).Draw(t, "cond")
		c.raw = `<stream:error><` + c.cond + ` xmlns="urn:ietf:params:xml:ns:xmpp-streams"/>`
		if rapid.Bool().Draw(t, "hastext") {
			c.text = gen.NonEmptyText(t, "errtext")
			var sb strings.Builder
			_ = xml.EscapeText(&sb, []byte(c.text))
			c.raw += `<text xmlns="urn:ietf:params:xml:ns:xmpp-streams">` + sb.String() + `</text>`
		}
		if rapid.IntRange(0, 2).Draw(t, "appcond") == 0 {
			// an application-specific condition may follow (RFC 6120 4.9.2): the
			// error is still the defined condition
			c.raw += rapid.SampledFrom([]string{`<escape-your-data xmlns="http://example.org/ns"/>`, `<too-many-sessions xmlns="urn:verif:app">3</too-many-sessions>`, `<conflict xmlns="urn:verif:app"/>`}).Draw(t, "appcondel")
		}
		c.raw += `</stream:error>`
	case "restart":
		c.raw = `<stream:stream xmlns="jabber:client" xmlns:stream="http://etherx.jabber.org/streams" version="1.0">`
	case "unknownstream":
		c.raw = rapid.SampledFrom([]string{`<stream:features/>`, `<stream:foo><a/></stream:foo>`, `<features xmlns="http://etherx.jabber.org/streams"/>`}).Draw(t, "us")
	case "comment":
		c.raw = rapid.SampledFrom([]string{`<!-- hi -->`, `<!---->`, `<!--<iq/>-->`}).Draw(t, "cm")
	case "pi":
		c.raw = rapid.SampledFrom([]string{`<?foo bar?>`, `<?xml version="1.0"?>`, `<?php ?>`}).Draw(t, "pi")
	case "directive":
		c.raw = rapid.SampledFrom([]string{`<!DOCTYPE x>`, `<!ENTITY a "b">`}).Draw(t, "dir")
	case "text":
		// (characters that Unicode calls white space but XML does not — NBSP,
		// NEL, EM SPACE, IDEOGRAPHIC SPACE, also as character references — are
		// non-whitespace text)
		c.raw = rapid.SampledFrom([]string{`x`, ` y `, `&amp;`, "\n.\n", "\u00a0", " \n\u00a0 \t ", "\u2003", "\u3000", "\u0085", "&#160;", " &#x2003; ", "\u200b", "\ufeff"}).Draw(t, "txt")
	case "strayend":
		c.raw = `</stream:error>`
	case "malformed":
		if nested {
			c.raw = rapid.SampledFrom([]string{`<a></b>`, `<<`, `<a b=c/>`, `<a b="1" b="2"`, `&nosuch;`, "\x01", `</zz>`}).Draw(t, "mal")
		} else {
			// at top level only forms that fail before any start tag is produced
			c.raw = rapid.SampledFrom([]string{`<<`, `<a b=c/>`, "\x01", `</zz>`, `<a b="1" b="2"`}).Draw(t, "mal")
		}
	}
	return c
}

// insertRaw places a Raw node at a random position inside n (any depth).
func insertRaw(t *rapid.T, n *xt.Node, raw string) {
	cur := n
	for {
		var elems []*xt.Node
		for _, c := range cur.Children {
			if !c.IsText() {
				elems = append(elems, c)
			}
		}
		if len(elems) > 0 && rapid.Bool().Draw(t, "deeper") {
			cur = elems[rapid.IntRange(0, len(elems)-1).Draw(t, "which")]
			continue
		}
		break
	}
	pos := rapid.IntRange(0, len(cur.Children)).Draw(t, "rawpos")
	kids := append([]*xt.Node{}, cur.Children[:pos]...)
	kids = append(kids, xt.Raw(raw))
	kids = append(kids, cur.Children[pos:]...)
	cur.Children = kids
}

func genProg(t *rapid.T) readProg {
	p := readProg{mode: rapid.SampledFrom([]string{"none", "some", "some", "all", "allplus"}).Draw(t, "mode")}
	if p.mode == "some" {
		p.k = rapid.IntRange(1, 6).Draw(t, "k")
	}
	if p.mode == "allplus" {
		p.extra = rapid.IntRange(1, 3).Draw(t, "extra")
	}
	if p.mode == "all" || p.mode == "allplus" {
		p.swallow = rapid.SampledFrom([]string{"", "", "stop", "more"}).Draw(t, "swallow")
	}
	if rapid.IntRange(0, 9).Draw(t, "reterr") == 0 {
		p.retErr = rapid.SampledFrom([]string{"plain", "stanza", "stanza"}).Draw(t, "reterrkind")
	}
	return p
}

func genCase(t *rapid.T) tcase {
	tc := tcase{s2s: rapid.Bool().Draw(t, "s2s")}
	tc.local = jid.MustParse(rapid.SampledFrom([]string{"test@example.net", "me@example.net/res", "example.org", "a.b@c.example/r1"}).Draw(t, "local"))
	if rapid.IntRange(0, 2).Draw(t, "addrAssigned") == 0 {
		tc.origin = jid.MustParse(rapid.SampledFrom([]string{"example.net", "old@example.com", "test@example.org/x"}).Draw(t, "origin"))
	} else if rapid.IntRange(0, 2).Draw(t, "negotiatedSession") == 0 {
		tc.negotiated = rapid.SampledFrom([]string{"initiated", "received"}).Draw(t, "negotiatedRole")
	}
	ns := stanza.NSClient
	if tc.s2s {
		ns = stanza.NSServer
	}
	tc.outputClosed = rapid.IntRange(0, 5).Draw(t, "outputclosed") == 0
	n := rapid.IntRange(1, 6).Draw(t, "nitems")
	for i := 0; i < n; i++ {
		var it item
		switch k := rapid.IntRange(0, 11).Draw(t, "itemkind"); {
		case k <= 6:
			it.kind = "elem"
			var node *xt.Node
			if rapid.IntRange(0, 2).Draw(t, "stanza") > 0 {
				// a stanza in the content namespace, often with a from
				node = gen.Tree(t, "st", rapid.IntRange(0, 3).Draw(t, "depth"), ns)
				node.Name = xml.Name{Space: ns, Local: rapid.SampledFrom([]string{"iq", "message", "presence"}).Draw(t, "stname")}
				if rapid.IntRange(0, 5).Draw(t, "lookalike") == 0 {
					// named like a stanza but qualified by another namespace (the other
					// stream content namespace, or something unrelated): not a stanza
					// of this stream, presented exactly as it arrived
					other := stanza.NSServer
					if tc.s2s {
						other = stanza.NSClient
					}
					node.Name.Space = rapid.SampledFrom([]string{other, "urn:verif:x", "jabber:component:accept"}).Draw(t, "lookalikens")
				}
				var attrs []xml.Attr
				for _, a := range node.Attr {
					if a.Name.Local != "from" && a.Name.Local != "type" {
						attrs = append(attrs, a)
					}
				}
				node.Attr = attrs
				// result/error types with ids could be mistaken for tracked replies only if a
				// request were pending; none is, so every type is fair game
				node.Attr = append(node.Attr, xt.A("type", rapid.SampledFrom([]string{"get", "set", "result", "error", "chat", "", "unavailable"}).Draw(t, "sttype")))
				switch rapid.IntRange(0, 5).Draw(t, "fromkind") {
				case 5:
					if !tc.origin.Equal(jid.JID{}) {
						node.Attr = append(node.Attr, xt.A("from", tc.origin.Bare().String()))
					}
				case 0:
					node.Attr = append(node.Attr, xt.A("from", tc.local.Bare().String()))
				case 1:
					node.Attr = append(node.Attr, xt.A("from", tc.local.String()))
				case 2:
					node.Attr = append(node.Attr, xt.A("from", "other@example.com/x"))
				case 3:
					node.Attr = append(node.Attr, xt.A("from", tc.local.Bare().String()+"/zzz"))
				}
			} else {
				node = gen.Tree(t, "el", rapid.IntRange(0, 4).Draw(t, "depth"), ns)
				if node.Name.Space == wire.StreamNS {
					node.Name.Space = "urn:verif:x"
				}
			}
			if rapid.IntRange(0, 11).Draw(t, "framingNS") == 0 {
				// elements of the WebSocket framing namespace are nothing special on
				// a TCP stream: a quoted <open/> or <close/> inside a payload, or an
				// element of that namespace at top level, is content like any other
				fr := xt.El(wire.WSNS, rapid.SampledFrom([]string{"open", "close", "other"}).Draw(t, "framingLocal"), nil)
				if rapid.Bool().Draw(t, "framingNested") || stanza.Is(node.Name, ns) {
					node.Children = append(node.Children, fr)
				} else {
					fr.Children = node.Children
					fr.Attr = node.Attr
					node = fr
				}
			}
			it.node = node
			if rapid.IntRange(0, 4).Draw(t, "nestbad") == 0 {
				it.bad = genConstruct(t, true)
				insertRaw(t, node, it.bad.raw)
			}
			it.raw = string(node.Bytes(ns))
			if it.bad == nil && rapid.IntRange(0, 3).Draw(t, "respell") == 0 {
				// the same element with its character data in other XML spellings
				// (CDATA sections - also empty ones -, character references,
				// several runs): more and other tokens, the same content
				it.raw = string(xt.Respell([]byte(it.raw), uint32(rapid.IntRange(0, 1<<20).Draw(t, "respellSalt"))))
				if strings.Contains(it.raw, "<![CDATA[]]>") {
					it.emptyCDATA = true
				}
			}
			it.prog = genProg(t)
		case k <= 8:
			it.kind = "ws"
			it.raw = rapid.SampledFrom([]string{" ", "\n", "\t \n", "   "}).Draw(t, "ws")
		case k == 9 && tc.respRead == "" && !tc.outputClosed && rapid.Bool().Draw(t, "response"):
			// the answer to the application's own outstanding request
			tc.respRead = rapid.SampledFrom([]string{"none", "start", "nested", "all"}).Draw(t, "respRead")
			it.kind = "response"
			it.raw = `<iq xmlns="` + ns + `" type="result" id="` + ownReqID + `"><query xmlns="urn:verif:resp"><item n="1"><v>t</v></item><item n="2"/></query></iq>`
		case k == 9 && tc.respRead != "" && rapid.Bool().Draw(t, "dupresponse"):
			// the request has been answered: another result / error stanza with its
			// id (a repeated answer, a late error, a peer reusing the id) is an
			// ordinary top-level element for the handler
			it.kind = "elem"
			it.node = xt.El(ns, "iq", []xml.Attr{xt.A("type", rapid.SampledFrom([]string{"result", "error"}).Draw(t, "duptype")), xt.A("id", ownReqID)}, xt.El("urn:verif:resp", "again", nil))
			it.raw = string(it.node.Bytes(ns))
			it.prog = genProg(t)
			tc.dupResponse = true
		case k == 9:
			it.kind = "close"
			it.raw = "</stream:stream>"
		default:
			it.kind = "construct"
			it.bad = genConstruct(t, false)
			it.raw = it.bad.raw
		}
		tc.items = append(tc.items, it)
		if it.kind == "close" {
			break
		}
	}
	return tc
}

func (tc tcase) input() string {
	var sb strings.Builder
	for _, it := range tc.items {
		sb.WriteString(it.raw)
	}
	return sb.String()
}

func (tc tcase) String() string {
	var sb strings.Builder
	fmt.Fprintf(&sb, "s2s=%v local=%s (session created as %q, negotiated=%q) output-closed-first=%v own-request-outstanding(caller reads %q of the response)=%v input=%q progs=[", tc.s2s, tc.local, tc.origin.String(), tc.negotiated, tc.outputClosed, tc.respRead, tc.respRead != "", tc.input())
	for _, it := range tc.items {
		if it.kind == "elem" {
			fmt.Fprintf(&sb, "%s:%d:%d%s ", it.prog.mode, it.prog.k, it.prog.extra, map[string]string{"": "", "stop": ":read-error-ignored", "more": ":reads-on-after-a-read-error"}[it.prog.swallow]+map[string]string{"": "", "plain": ":then-returns-an-error", "stanza": ":then-returns-a-stanza-error"}[it.prog.retErr])
		}
	}
	sb.WriteString("]")
	return sb.String()
}

// ---------------------------------------------------------------- recorder

type invocation struct {
	start    xml.StartElement
	toks     []xml.Token
	errs     []string
	afterEOF []string // result of reads after the first io.EOF
	sawEOF   bool
	afterErr []xml.Token // tokens read after a read error the handler ignored
}

type recorder struct {
	progs []readProg
	inv   []*invocation
	// the readers of earlier invocations, kept by the handler; reading from
	// them later must never deliver anything (the element they belonged to is
	// over): what they did deliver
	kept  []xml.TokenReader
	leaks []string
}

func (r *recorder) HandleXMPP(t xmlstream.TokenReadEncoder, start *xml.StartElement) error {
	i := len(r.inv)
	for k := len(r.kept) - 1; k >= 0 && k >= len(r.kept)-2; k-- {
		for n := 0; n < 3; n++ {
			tok, err := r.kept[k].Token()
			if tok != nil {
				r.leaks = append(r.leaks, fmt.Sprintf("while invocation %d runs, the reader kept from invocation %d delivered %s", i, k, xt.CanonTokens([]xml.Token{xml.CopyToken(tok)})))
			}
			if err != nil {
				break
			}
		}
	}
	r.kept = append(r.kept, t)
	iv := &invocation{start: start.Copy()}
	r.inv = append(r.inv, iv)
	prog := readProg{mode: "all"}
	if i < len(r.progs) {
		prog = r.progs[i]
	}
	limit := -1
	switch prog.mode {
	case "none":
		return progErr(prog)
	case "some":
		limit = prog.k
	}
	for n := 0; limit < 0 || n < limit; n++ {
		tok, err := t.Token()
		if tok != nil {
			iv.toks = append(iv.toks, xml.CopyToken(tok))
		}
		if err == io.EOF {
			iv.sawEOF = true
			break
		}
		if err != nil {
			iv.errs = append(iv.errs, err.Error())
			switch prog.swallow {
			case "stop":
				return progErr(prog)
			case "more":
				for n := 0; n < 40; n++ {
					tok, err := t.Token()
					if tok != nil {
						iv.afterErr = append(iv.afterErr, xml.CopyToken(tok))
					}
					if err != nil {
						break
					}
				}
				return progErr(prog)
			}
			return err // handlers propagate read errors
		}
	}
	if iv.sawEOF {
		for n := 0; n < prog.extra; n++ {
			tok, err := t.Token()
			iv.afterEOF = append(iv.afterEOF, fmt.Sprintf("%v,%v", tok, err))
		}
	}
	return progErr(prog)
}

func progErr(prog readProg) error {
	switch prog.retErr {
	case "plain":
		return errors.New("verif: the handler failed")
	case "stanza":
		return stanza.Error{Type: stanza.Modify, Condition: stanza.BadRequest}
	}
	return nil
}

// ---------------------------------------------------------------- property

func startCanon(s xml.StartElement) string {
	n := xt.Node{Name: s.Name, Attr: s.Attr}
	return n.Canon()
}

func forbiddenToken(tok xml.Token) string {
	switch t := tok.(type) {
	case xml.Comment:
		return "comment"
	case xml.ProcInst:
		return "processing instruction"
	case xml.Directive:
		return "directive"
	case xml.StartElement:
		if t.Name.Space == wire.StreamNS {
			return "stream-namespace element " + t.Name.Local
		}
	case xml.EndElement:
		if t.Name.Space == wire.StreamNS {
			return "stream-namespace end element " + t.Name.Local
		}
	}
	return ""
}

func check(t interface {
	Helper()
	Fatalf(string, ...any)
}, tc tcase) {
	t.Helper()
	fail := func(format string, args ...any) {
		t.Helper()
		ev.Failf(t, "%s\n%s", tc.String(), fmt.Sprintf(format, args...))
	}
	opts := wire.SessionOpts{Local: tc.local, Origin: tc.origin, Negotiated: tc.negotiated}
	if tc.s2s {
		opts.State |= xmpp.S2S
	}
	conn := wire.NewConn()
	conn.FeedString(opts.Header())
	conn.FeedString(tc.input())
	conn.CloseInput()
	s, err := wire.ReadySession(conn, opts)
	if err != nil {
		t.Fatalf("harness: ReadySession: %v", err)
	}
	if tc.outputClosed {
		if err := s.Close(); err != nil {
			t.Fatalf("harness: Close: %v", err)
		}
	}
	rec := &recorder{}
	for _, it := range tc.items {
		if it.kind == "elem" {
			rec.progs = append(rec.progs, it.prog)
		}
	}
	octx, ocancel := context.WithCancel(context.Background())
	defer ocancel()
	odone := make(chan struct{})
	var respToks []string
	gotResp := false
	if tc.respRead != "" {
		go func() {
			defer close(odone)
			resp, _ := s.SendIQ(octx, xt.El(opts.NS(), "iq", []xml.Attr{xt.A("type", "get"), xt.A("id", ownReqID)}, xt.El("urn:verif:resp", "query", nil)).Reader())
			if resp == nil {
				return
			}
			gotResp = true
			limit := map[string]int{"none": 0, "start": 1, "nested": 4, "all": 1000}[tc.respRead]
			for i := 0; i < limit; i++ {
				tok, err := resp.Token()
				switch tk := tok.(type) {
				case xml.StartElement:
					respToks = append(respToks, "<"+tk.Name.Local)
				case xml.EndElement:
					respToks = append(respToks, "</"+tk.Name.Local)
				}
				if err != nil {
					break
				}
			}
			_ = resp.Close()
		}()
		// the request must be registered and on the wire before input is served
		conn.WaitOutput(func(b []byte) bool {
			return bytes.Contains(b, []byte(ownReqID)) && bytes.HasSuffix(bytes.TrimSpace(b), []byte("</iq>"))
		}, 5*time.Second)
	} else {
		close(odone)
	}
	var serveErr error
	if p := ev.Guard(func() { serveErr = s.Serve(rec) }); p != "" {
		fail("Serve panicked: %s", p)
	}
	ocancel()
	select {
	case <-odone:
	case <-time.After(10 * time.Second):
		fail("the application's own SendIQ did not return after Serve had returned and its context was cancelled")
	}

	// expected invocations
	ns := opts.NS()
	type exp struct {
		node *xt.Node
		bad  *construct
		raw  string
	}
	var want []exp
	responseServed := false // the response was reached before the stream ended
	end := "eof"            // eof | close | streamerr | error
	var wantErr *construct
	var stops []int // numbers of invocations after which the stream may have ended with an error
	var respAtStop []bool
loop:
	for _, it := range tc.items {
		switch it.kind {
		case "ws":
		case "response":
			responseServed = true
		case "elem":
			want = append(want, exp{it.node, it.bad, it.raw})
			if it.bad == nil && it.prog.retErr != "" {
				// the handler itself returns an error: the stream ends here
				end = "error"
				break loop
			}
			if it.bad != nil {
				if it.prog.swallow != "" && it.bad.kind != "malformed" && it.prog.retErr == "" {
					// the handler meets the read error itself and ignores it
					stops = append(stops, len(want))
					respAtStop = append(respAtStop, responseServed)
					continue
				}
				end = "error"
				break loop
			}
		case "close":
			end = "close"
			break loop
		case "construct":
			end = "error"
			if it.bad.kind == "streamerr" {
				end = "streamerr"
				wantErr = it.bad
			}
			break loop
		}
	}

	if serveErr != nil {
		for k, sp := range stops {
			if len(rec.inv) == sp {
				want = want[:sp]
				end = "error"
				responseServed = respAtStop[k]
				break
			}
		}
	}
	if tc.respRead != "" {
		if responseServed && !gotResp {
			fail("the answer to the application's own request arrived (before anything that ends the stream) but SendIQ did not get it")
		}
		if gotResp && tc.respRead == "all" {
			if got, wantToks := strings.Join(respToks, " "), "<iq <query <item <v </v </item <item </item </query </iq"; got != wantToks {
				fail("the caller read its response to the end and saw %q, want %q", got, wantToks)
			}
		}
	}
	if tc.outputClosed && len(rec.inv) < len(want) {
		// a reply that cannot be written may end Serve early (with an error):
		// what was served must still be a prefix of the expected framing
		if serveErr == nil {
			fail("handler invoked %d times, expected %d, but Serve returned nil", len(rec.inv), len(want))
		}
		want = want[:len(rec.inv)]
		end = "cut-short"
	}
	if len(rec.leaks) > 0 {
		fail("a handler that kept the reader it was given could read past the end of its element: %s", strings.Join(rec.leaks, "; "))
	}
	if len(rec.inv) != len(want) {
		fail("handler invoked %d times, expected %d (one per top-level element before the first stream-level construct); serve error: %v", len(rec.inv), len(want), serveErr)
	}
	ownBare := tc.local.Bare().String()
	for i, iv := range rec.inv {
		w := want[i]
		// expected start element
		ws := xml.StartElement{Name: w.node.Name, Attr: append([]xml.Attr(nil), w.node.Attr...)}
		if stanza.Is(ws.Name, ns) {
			for j, a := range ws.Attr {
				if a.Name.Local == "from" && a.Value == ownBare {
					ws.Attr[j].Value = ""
				}
			}
		}
		if got, wantc := startCanon(iv.start), startCanon(ws); got != wantc {
			fail("invocation %d: start element %s, expected %s", i, got, wantc)
		}
		for _, tok := range append(append([]xml.Token{}, iv.toks...), iv.afterErr...) {
			if f := forbiddenToken(tok); f != "" {
				fail("invocation %d: handler observed a %s", i, f)
			}
		}
		// expected readable tokens: everything after the start up to and
		// including the end tag (or up to the nested construct)
		all, hasRaw := w.node.TokensBeforeRaw()
		all = all[1:]
		prog := rec.progs[i]
		gotC := xt.CanonTokens(iv.toks)
		switch {
		case prog.mode == "none":
			if len(iv.toks) != 0 {
				fail("invocation %d: read tokens without asking", i)
			}
		case hasRaw:
			// the handler may have read any prefix of the tokens before the construct
			// (malformed XML may begin with tokens that are fine in themselves)
			if w.bad.kind != "malformed" && !canonPrefix(gotC, xt.CanonTokens(all)) {
				fail("invocation %d (element with nested %s): handler read %s which is not a prefix of %s", i, w.bad.kind, gotC, xt.CanonTokens(all))
			}
			if iv.sawEOF {
				fail("invocation %d: element containing a nested %s was presented as complete (EOF)", i, w.bad.kind)
			}
		case prog.mode == "some":
			if !canonPrefix(gotC, xt.CanonTokens(all)) {
				fail("invocation %d: handler read %s which is not a prefix of %s", i, gotC, xt.CanonTokens(all))
			}
			// (the number of tokens is that of an independent pass over the
			// element's bytes: character data may be spelled in several runs)
			ntok := -1
			for d := xml.NewDecoder(strings.NewReader(w.raw)); ; ntok++ {
				if _, err := d.RawToken(); err != nil {
					break
				}
			}
			if ntok < len(all) {
				ntok = len(all)
			}
			if len(iv.toks) > ntok {
				fail("invocation %d: handler read %d tokens, element has only %d", i, len(iv.toks), ntok)
			}
		default: // all, allplus
			if gotC != xt.CanonTokens(all) {
				fail("invocation %d: handler read %s, expected exactly %s (through the end tag)", i, gotC, xt.CanonTokens(all))
			}
			if !iv.sawEOF {
				fail("invocation %d: no EOF after the end tag (errors: %v)", i, iv.errs)
			}
			for _, a := range iv.afterEOF {
				if a != "<nil>,EOF" {
					fail("invocation %d: read after EOF returned %s, expected nil, EOF", i, a)
				}
			}
		}
	}

	if tc.outputClosed {
		// with the output closed any reply the library owes fails to be written
		// and may end Serve with that error: only the framing is asserted
		end = "cut-short"
	}
	switch end {
	case "close":
		if serveErr != nil {
			fail("peer closed its stream but Serve returned %v", serveErr)
		}
	case "streamerr":
		var se stream.Error
		if !errors.As(serveErr, &se) {
			fail("received stream error %q but Serve returned %T %v", wantErr.cond, serveErr, serveErr)
		}
		if se.Err != wantErr.cond {
			fail("received stream error %q but Serve returned condition %q", wantErr.cond, se.Err)
		}
		if wantErr.text != "" && se.Text[0].Value != wantErr.text {
			fail("received stream error text %q but Serve returned %q", wantErr.text, se.Text)
		}
	case "error":
		if serveErr == nil {
			fail("stream-level construct in the input but Serve returned nil")
		}
	}
	if st := s.State(); st&xmpp.InputStreamClosed == 0 {
		fail("Serve returned but the input stream is not marked closed (state %v)", st)
	}
}

// canonPrefix reports whether got is a prefix of want, allowing got to end in
// the middle of a character-data run.
func canonPrefix(got, want string) bool {
	if strings.HasPrefix(want, got) {
		return true
	}
	if strings.HasSuffix(got, `"`) && strings.HasPrefix(want, got[:len(got)-1]) {
		return true
	}
	return false
}

func classify(tc tcase) (nontrivial bool, classes []string) {
	elems, partial, nested := 0, 0, 0
	for _, it := range tc.items {
		if it.emptyCDATA {
			classes = append(classes, "element-with-empty-CDATA-section")
		}
		switch it.kind {
		case "elem":
			elems++
			if it.prog.mode == "some" || it.prog.mode == "none" {
				partial++
			}
			if it.bad != nil {
				nested++
				classes = append(classes, "nested-"+it.bad.kind)
				if it.prog.swallow != "" {
					classes = append(classes, "nested-construct-read-error-ignored-by-handler")
				}
			}
		case "construct":
			classes = append(classes, "top-"+it.bad.kind)
		case "close":
			classes = append(classes, "close")
		case "ws":
			classes = append(classes, "keepalive")
		}
	}
	if tc.s2s {
		classes = append(classes, "s2s")
	}
	if tc.outputClosed {
		classes = append(classes, "output-closed-before-serving")
	}
	if tc.respRead != "" {
		classes = append(classes, "response-to-own-request-among-the-input", "response-read-"+tc.respRead)
		if tc.dupResponse {
			classes = append(classes, "answered-request-id-seen-again")
		}
	}
	if !tc.origin.Equal(jid.JID{}) {
		classes = append(classes, "address-assigned-during-negotiation")
	}
	if tc.negotiated != "" {
		classes = append(classes, "session-negotiated-"+tc.negotiated)
	}
	return (elems >= 2 && partial >= 1) || nested >= 1, classes
}

func TestC08Serve(t *testing.T) {
	ev.Check(t, 30000, 150000, func(rt *rapid.T) {
		tc := genCase(rt)
		nt, classes := classify(tc)
		ev.Case(nt, tc.String(), classes...)
		check(rt, tc)
	})
}
