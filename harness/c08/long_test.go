package c08

// Long histories on ONE session: the clauses of C08 hold for the ten-thousandth
// element as for the first.  Whatever the serve loop keeps per session (token
// readers, counters, buffers) is driven far past the sizes of the other tests:
// thousands of well-formed top-level elements, each with a generated number of
// children, separated by keep-alive white space, ended by the peer's closing
// tag.  Oracle: the handler is invoked exactly once per element, in order,
// with exactly that element's tokens (counted), and Serve returns nil.

import (
	"encoding/xml"
	"fmt"
	"strings"
	"testing"

	"mellium.im/xmlstream"
	"mellium.im/xmpp"
	"mellium.im/xmpp/jid"
	"mellium.im/xmpp/verifharness/internal/ev"
	"mellium.im/xmpp/verifharness/internal/wire"
	"pgregory.net/rapid"
)

type longRec struct {
	names  []string
	tokens []int
	mode   int
	errs   []string
}

func (r *longRec) HandleXMPP(t xmlstream.TokenReadEncoder, start *xml.StartElement) error {
	n := 1
	if r.mode != 2 || len(r.names)%3 != 0 { // mode 2: every third element is left unread
		for {
			tok, err := t.Token()
			if tok != nil {
				n++
			}
			if err != nil || tok == nil {
				break
			}
		}
	}
	id := ""
	for _, a := range start.Attr {
		if a.Name.Local == "id" && a.Name.Space == "" {
			id = a.Value
		}
	}
	r.names = append(r.names, start.Name.Local+"#"+id)
	r.tokens = append(r.tokens, n)
	return nil
}

func TestC08LongSession(t *testing.T) {
	ev.Check(t, 6, 40, func(rt *rapid.T) {
		s2s := rapid.Bool().Draw(rt, "s2s")
		// total number of XML tokens the session is to see, around the powers of
		// two at which counters and buffers are typically bounded
		total := rapid.SampledFrom([]int{1 << 15, 1<<16 + 500, 1<<16 + 500, 1 << 17, 3 << 16}).Draw(rt, "totalTokens")
		if ev.Thorough() {
			total = rapid.SampledFrom([]int{1<<16 + 500, 1 << 17, 1 << 18, 1 << 20, 1<<21 + 1000}).Draw(rt, "totalTokensThorough")
		}
		kids := rapid.SampledFrom([]int{0, 0, 1, 3, 20, 100}).Draw(rt, "kids")
		mode := rapid.IntRange(0, 2).Draw(rt, "readMode") // 0/1 read all, 2 leave every third unread
		keepalive := rapid.SampledFrom([]string{"", "", " ", "\n"}).Draw(rt, "keepalive")
		opts := wire.SessionOpts{Local: jid.MustParse("test@example.net")}
		if s2s {
			opts.State |= xmpp.S2S
			opts.Local = jid.MustParse("example.net")
		}
		ns := opts.NS()
		var child strings.Builder
		for k := 0; k < kids; k++ {
			fmt.Fprintf(&child, `<c xmlns="urn:verif:long" n="%d">t</c>`, k)
		}
		perElem := 2 + 3*kids
		conn := wire.NewConn()
		conn.FeedString(opts.Header())
		var want []string
		var in strings.Builder
		for seen := 0; seen < total; seen += perElem {
			name := []string{"message", "presence", "iq", "x"}[len(want)%4]
			id := fmt.Sprintf("L%d", len(want))
			switch name {
			case "iq":
				fmt.Fprintf(&in, `<iq xmlns="%s" type="result" id="%s" from="a@example.org/r">%s</iq>`, ns, id, child.String())
			case "x":
				fmt.Fprintf(&in, `<x xmlns="urn:verif:long" id="%s">%s</x>`, id, child.String())
			default:
				fmt.Fprintf(&in, `<%s xmlns="%s" id="%s" from="a@example.org/r">%s</%s>`, name, ns, id, child.String(), name)
			}
			in.WriteString(keepalive)
			want = append(want, name+"#"+id)
		}
		in.WriteString("</stream:stream>")
		conn.FeedString(in.String())
		conn.CloseInput()
		s, err := wire.ReadySession(conn, opts)
		if err != nil {
			rt.Fatalf("harness: ReadySession: %v", err)
		}
		desc := fmt.Sprintf("long session s2s=%v elements=%d children-per-element=%d (%d tokens each, about %d in all) handler-mode=%d keepalive=%q", s2s, len(want), kids, perElem, total, mode, keepalive)
		ev.Case(len(want)*perElem > 1<<16, desc, "long-session", fmt.Sprintf("long-session-tokens>=2^%d", log2(len(want)*perElem)))
		rec := &longRec{mode: mode}
		var serveErr error
		if p := ev.Guard(func() { serveErr = s.Serve(rec) }); p != "" {
			ev.Failf(rt, "%s\nServe panicked: %s", desc, p)
		}
		if len(rec.names) != len(want) {
			last := ""
			if len(rec.names) > 0 {
				last = rec.names[len(rec.names)-1]
			}
			ev.Failf(rt, "%s\nthe peer sent %d well-formed top-level elements and then its closing tag; the handler was invoked %d times (last: %s); Serve returned %v",
				desc, len(want), len(rec.names), last, serveErr)
		}
		for i := range want {
			if rec.names[i] != want[i] {
				ev.Failf(rt, "%s\ninvocation %d was for %s, the %d-th element on the wire is %s", desc, i, rec.names[i], i, want[i])
			}
			if (mode != 2 || i%3 != 0) && rec.tokens[i] != perElem-1 {
				// the handler holds the start token and reads the rest up to, not including, the element's end
				if rec.tokens[i] != perElem-1 && rec.tokens[i] != perElem {
					ev.Failf(rt, "%s\ninvocation %d (%s) could read %d tokens, the element has %d", desc, i, want[i], rec.tokens[i], perElem)
				}
			}
		}
		if serveErr != nil {
			ev.Failf(rt, "%s\nevery element was well-formed and the peer ended the stream with its closing tag; Serve returned %v", desc, serveErr)
		}
	})
}

func log2(n int) int {
	k := 0
	for n > 1 {
		n >>= 1
		k++
	}
	return k
}
