"""Per-property configuration of the driver: one harness/<pkg>/prop.json per property.

Keys: id, pkg, level, rule, assumptions, shards (thorough), fuzz [[FuzzName, seconds]...],
race (regex of tests to re-run under -race in thorough), race_scale, timeout_quick,
timeout_thorough, run (regex), technique, level_text, level_note, exhaustive_note.
"""
import glob
import json
import os

ROOT = os.path.dirname(os.path.abspath(__file__))
PROPS = {}
for p in sorted(glob.glob(os.path.join(ROOT, "harness", "*", "prop.json"))):
    c = json.load(open(p))
    PROPS[c["id"]] = c
