#!/bin/bash
# usage: run_all.sh quick|thorough [seed]   -- runs every registered check in order, prints one summary line each
TIER=${1:-quick}; export VERIF_SEED=${2:-1}
cd "$(dirname "$0")"
for i in $(seq -w 1 20); do
  p=C$i
  s=$(date +%s)
  out=$(python3 check.py $p --tier $TIER 2>&1); rc=$?
  echo "$p rc=$rc $(( $(date +%s) - s ))s $(echo "$out" | grep -E '^property=' | cut -d' ' -f4-5) $(echo "$out" | grep -cE '^VIOLATION') violations $(echo "$out" | grep -E '^INCONCLUSIVE' | head -2 | tr '\n' ' ')"
  echo "$out" | grep -E '^VIOLATION' | head -3
done
