#!/bin/bash
# usage: cover.sh [pkg ...]   (development helper)
# Runs the quick tier of the named harness packages (default: all) with Go's
# coverage instrumentation over every package of mellium/xmpp and writes
# /var/tmp/vw/cover/<pkg>.out plus a merged per-function report; used to find
# code behind a property's anchors that no generated case reaches.
export GOFLAGS=-mod=mod GOPROXY=off GOSUMDB=off GOTOOLCHAIN=local
OUT=/var/tmp/vw/cover; mkdir -p $OUT
cd /verif/harness
pk=${@:-$(ls -d c[0-9][0-9])}
for p in $pk; do
  ( d=$(mktemp -d -p /var/tmp cov-XXXX); cd /verif/harness
    go test -c -tags verif -vet=off -cover -coverpkg=mellium.im/xmpp/... -o $d/t.test ./$p >/dev/null 2>&1 || { echo "$p build failed"; exit; }
    run=$(python3 -c "import json;print(json.load(open('$p/prop.json')).get('run',''))")
    ( cd $d && VERIF_TIER=quick VERIF_SCALE=${SCALE:-0.5} VERIF_STATS=$d/st.json VERIF_REPLAY_DIR=$d ./t.test -rapid.seed=7 -test.timeout=900s ${run:+-test.run=$run} -test.coverprofile=$OUT/$p.out >/dev/null 2>&1 )
    echo "$p done $(wc -l < $OUT/$p.out)"; rm -rf $d ) &
done
wait
