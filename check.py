#!/usr/bin/env python3
"""Driver for the mellium/xmpp property checks (see DESIGN.md §0.3).

usage: check.py <ID> [--tier quick|thorough] [--replay PATH]
       check.py --setup            (pre-build every test binary, warm the cache)

exit 0  property held on everything explored (KNOWN-FINDING lines possible)
exit 1  `VIOLATION property=<id> replay=<path>` printed
exit 2  could not decide (build failure, harness error, timeout)
"""
import argparse
import glob
import json
import os
import re
import shutil
import subprocess
import sys
import tempfile
import time

ROOT = os.path.dirname(os.path.abspath(__file__))
HARNESS = os.path.join(ROOT, "harness")
sys.path.insert(0, ROOT)
from props import PROPS  # noqa: E402

ENV = dict(os.environ)
ENV.update({
    "GOFLAGS": "-mod=mod",
    "GOPROXY": "off",
    "GOSUMDB": "off",
    "GOTOOLCHAIN": "local",
    "GONOSUMDB": "*",
    "GOFLAGS_NOTE": "",
})
ENV.pop("GOFLAGS_NOTE")
BUILD_TAGS = "verif"


def log(*a):
    print(*a, flush=True)


def ensure_gosum():
    """The harness module resolves everything from /repo's go.sum plus rapid."""
    dst = os.path.join(HARNESS, "go.sum")
    try:
        want = open("/repo/go.sum").read()
    except OSError:
        return
    have = open(dst).read() if os.path.exists(dst) else ""
    missing = [l for l in want.splitlines() if l and l not in have]
    if missing:
        with open(dst, "a") as f:
            f.write("\n".join(missing) + "\n")


def alt_modfile(work):
    """VERIF_REPO=<dir> (development only): build against another checkout of
    mellium/xmpp (a scratch worktree with a candidate fix or a seeded mutant)
    instead of /repo, without touching /repo or the harness go.mod."""
    repo = os.environ.get("VERIF_REPO")
    if not repo:
        return []
    mod = open(os.path.join(HARNESS, "go.mod")).read().replace("=> /repo", "=> " + os.path.abspath(repo))
    mf = os.path.join(work, "alt.mod")
    with open(mf, "w") as f:
        f.write(mod)
    shutil.copy(os.path.join(HARNESS, "go.sum"), os.path.join(work, "alt.sum"))
    return ["-modfile=" + mf]


def build(pkg, out, race=False):
    cmd = ["go", "test", "-c", "-tags", BUILD_TAGS, "-vet=off", "-o", out] + alt_modfile(os.path.dirname(out))
    if race:
        cmd.append("-race")
    cmd.append("./" + pkg)
    p = subprocess.run(cmd, cwd=HARNESS, env=ENV, stdout=subprocess.PIPE,
                       stderr=subprocess.STDOUT, text=True)
    return p.returncode, p.stdout


def known_findings(pid):
    known, fixed = {}, []
    path = os.path.join(ROOT, "known_findings.txt")
    if not os.path.exists(path):
        return known, fixed
    for line in open(path):
        line = line.strip()
        if not line or line.startswith("#"):
            continue
        m = re.match(r"known:\s+property=(\S+)\s+key=(\S+)\s+(.*)", line)
        if m and m.group(1) == pid:
            known[m.group(2)] = m.group(3)
        m = re.match(r"fixed:\s+property=(\S+)\s+(.*)", line)
        if m and m.group(1) == pid:
            fixed.append(m.group(2))
    return known, fixed


def seed_for(base, shard):
    s = (base * 1000003 + shard * 7919 + 1) & 0x7FFFFFFFFFFFFFFF
    return s or 1


class Shard:
    def __init__(self, idx, work, binary, args, env, timeout, label=""):
        self.idx = idx
        self.dir = os.path.join(work, "s%d%s" % (idx, label))
        os.makedirs(os.path.join(self.dir, "replay"), exist_ok=True)
        self.stats = os.path.join(self.dir, "stats.json")
        self.logpath = os.path.join(self.dir, "out.log")
        e = dict(env)
        e["VERIF_STATS"] = self.stats
        e["VERIF_REPLAY_DIR"] = os.path.join(self.dir, "replay")
        e["VERIF_SHARD"] = str(idx)
        self.timeout = timeout
        self.args = args
        self.t0 = time.time()
        self.logf = open(self.logpath, "w")
        self.p = subprocess.Popen([binary] + args, cwd=self.dir, env=e,
                                  stdout=self.logf, stderr=subprocess.STDOUT)
        self.timed_out = False

    def wait(self):
        left = self.timeout - (time.time() - self.t0)
        try:
            self.p.wait(timeout=max(left, 1))
        except subprocess.TimeoutExpired:
            self.timed_out = True
            self.p.kill()
            self.p.wait()
        self.logf.close()
        self.rc = self.p.returncode
        self.out = open(self.logpath, errors="replace").read()
        self.st = None
        if os.path.exists(self.stats):
            try:
                self.st = json.load(open(self.stats))
            except Exception:
                self.st = None
        return self


def save_replay(pid, shard, name, body, extra_files=()):
    d = os.path.join(ROOT, "replay", pid)
    os.makedirs(d, exist_ok=True)
    base = re.sub(r"[^A-Za-z0-9_.-]", "_", name)
    path = os.path.join(d, base + ".txt")
    with open(path, "w") as f:
        f.write(body)
    for src in extra_files:
        shutil.copy(src, os.path.join(d, os.path.basename(src)))
    return path


def run_check(pid, tier, replay=None):
    cfg = PROPS[pid]
    t0 = time.time()
    seed = int(os.environ.get("VERIF_SEED", "1") or "1")
    ensure_gosum()
    work = tempfile.mkdtemp(prefix="verif-%s-" % pid.lower(), dir="/var/tmp")
    try:
        return _run(pid, cfg, tier, seed, work, t0, replay)
    finally:
        shutil.rmtree(work, ignore_errors=True)


def _run(pid, cfg, tier, seed, work, t0, replay):
    known, fixed = known_findings(pid)
    binary = os.path.join(work, "t.test")
    rc, out = build(cfg["pkg"], binary)
    if rc != 0:
        log(out)
        log("INCONCLUSIVE property=%s: build failed (of /repo or of the harness)" % pid)
        return 2
    env = dict(ENV)
    env["VERIF_TIER"] = tier
    env["VERIF_KNOWN"] = ",".join(sorted(known))
    env["VERIF_SEED"] = str(seed)
    if tier == "thorough" and cfg.get("thorough_scale"):
        # multiplies the case counts of the rapid properties (ev.Check)
        env["VERIF_SCALE"] = str(cfg["thorough_scale"])

    if replay:
        return do_replay(pid, cfg, binary, env, work, replay)
    shutil.rmtree(os.path.join(ROOT, "replay", pid), ignore_errors=True)

    nshards = cfg.get("shards", 8) if tier == "thorough" else 1
    timeout = cfg.get("timeout_thorough", 2400) if tier == "thorough" else cfg.get("timeout_quick", 420)
    shards = []
    for k in range(nshards):
        args = ["-rapid.seed=%d" % seed_for(seed, k), "-test.timeout=%ds" % (timeout + 30),
                "-rapid.shrinktime=%s" % cfg.get("shrinktime", "20s")]
        if cfg.get("run"):
            args.append("-test.run=" + cfg["run"])
        shards.append(Shard(k, work, binary, args, env, timeout))
    race_shards = []
    # race detector: thorough tier for every property that names tests under
    # "race"; quick tier only for the (small, concurrency-only) tests named
    # under "race_quick"
    race_tests = cfg.get("race") if tier == "thorough" else cfg.get("race_quick")
    if race_tests:
        rbin = os.path.join(work, "race.test")
        rc, out = build(cfg["pkg"], rbin, race=True)
        if rc != 0:
            log(out)
            log("INCONCLUSIVE property=%s: -race build failed" % pid)
            return 2
        renv = dict(env)
        renv["VERIF_SCALE"] = str(cfg.get("race_scale", 0.1) if tier == "thorough" else cfg.get("race_quick_scale", 0.3))
        renv["VERIF_RACE"] = "1"
        for k in range(cfg.get("race_shards", 2) if tier == "thorough" else 1):
            args = ["-rapid.seed=%d" % seed_for(seed, 100 + k), "-test.timeout=%ds" % (timeout + 30),
                    "-rapid.shrinktime=10s", "-test.run=" + race_tests]
            race_shards.append(Shard(100 + k, work, rbin, args, renv, timeout, "r"))
    fuzz_shards = []
    if tier == "thorough":
        for i, (fname, secs) in enumerate(cfg.get("fuzz", [])):
            fenv = dict(env)
            args = ["-test.run=^$", "-test.fuzz=^%s$" % fname, "-test.fuzztime=%ds" % secs,
                    "-test.fuzzcachedir=" + os.path.join(work, "fuzzcache%d" % i),
                    "-test.timeout=%ds" % (secs + 300)]
            fs = Shard(200 + i, work, binary, args, fenv, secs + 360, "f")
            fs.fuzzname = fname
            fuzz_shards.append(fs)
    for s in shards + race_shards + fuzz_shards:
        s.wait()

    violations = []   # (name, body, files)
    inconclusive = []
    agg = dict(evaluations=0, hashes=set(), classes={}, samples=[], excluded={}, notes=[], tests=set(),
               nontrivial=0)
    witness = {}
    fuzz_execs = 0
    for s in shards + race_shards + fuzz_shards:
        st = s.st
        tag = "shard%d" % s.idx
        if st:
            agg["evaluations"] += st.get("evaluations", 0)
            agg["nontrivial"] += st.get("nontrivial", 0)
            agg["hashes"].update(st.get("hashes") or [])
            for k, v in (st.get("classes") or {}).items():
                agg["classes"][k] = agg["classes"].get(k, 0) + v
            for k, v in (st.get("excluded") or {}).items():
                agg["excluded"][k] = agg["excluded"].get(k, 0) + v
            for smp in (st.get("samples") or []):
                if len(agg["samples"]) < 24:
                    agg["samples"].append(smp)
            for n in (st.get("notes") or []):
                if n not in agg["notes"]:
                    agg["notes"].append(n)
            agg["tests"].update(st.get("tests") or [])
            for w in (st.get("known") or []):
                cur = witness.get(w["key"])
                if cur is None or w["still_fails"]:
                    witness[w["key"]] = w
        if hasattr(s, "fuzzname"):
            m = re.findall(r"execs: (\d+)", s.out)
            if m:
                fuzz_execs += int(m[-1])
        fails = glob.glob(os.path.join(s.dir, "testdata", "rapid", "*", "*.fail"))
        crashers = [f for f in glob.glob(os.path.join(s.dir, "testdata", "fuzz", "*", "*"))]
        recorded = (st or {}).get("violations") or []
        if s.timed_out or "panic: test timed out" in s.out:
            # a time budget being hit is never a violation in itself; but what an
            # oracle recorded (ev.Failf writes its record at once) before the
            # budget ran out stands
            early = sorted(glob.glob(os.path.join(s.dir, "replay", "*.txt")))
            for rec in early:
                body = "seed=%s tier=%s shard=%d args=%s\n(the shard ran out of its time budget after this was recorded)\n" % (
                    env["VERIF_SEED"], tier, s.idx, " ".join(s.args))
                body += open(rec, errors="replace").read()
                violations.append((os.path.basename(rec)[:-4], body, []))
            if not early:
                inconclusive.append("%s: time budget exceeded" % tag)
                save_replay(pid, s.idx, "inconclusive-%s" % tag, s.out[-20000:])
            continue
        if s.rc == 0:
            continue
        if recorded:
            for v in recorded:
                body = "seed=%s tier=%s shard=%d args=%s\n" % (env["VERIF_SEED"], tier, s.idx, " ".join(s.args))
                rec = v.get("record")
                if rec and os.path.exists(rec):
                    body += open(rec).read()
                else:
                    body += "test: %s\n\n%s\n" % (v["test"], v["message"])
                mine = [f for f in fails if os.path.basename(os.path.dirname(f)) == v["test"].split("/")[0]]
                if mine:
                    body += "\nrapid fail file: %s\n" % os.path.basename(mine[0])
                violations.append((v["test"], body, mine[:1] + crashers))
        else:
            # failure that did not pass through ev.Failf: crash (unrecovered panic in a
            # library goroutine), plain t.Fatal or fuzz crasher
            if re.search(r"signal: killed|out of memory|cannot allocate memory", s.out):
                inconclusive.append("%s: killed / out of memory" % tag)
                continue
            body = "seed=%s tier=%s shard=%d args=%s\n(unrecorded failure; process output follows)\n\n%s" % (
                env["VERIF_SEED"], tier, s.idx, " ".join(s.args), s.out[-30000:])
            violations.append(("crash-%s" % tag, body, fails + crashers))

    # known findings: witness outcome
    for key, text in sorted(known.items()):
        w = witness.get(key)
        if w is None:
            log("NOTE property=%s known finding %s: witness was not replayed by this run" % (pid, key))
        elif w["still_fails"]:
            log("KNOWN-FINDING: property=%s %s [%s] %s" % (pid, key, w.get("detail", "")[:300].replace("\n", " "), text))
        else:
            log("NOTE property=%s known finding %s no longer reproduces (%s)" % (pid, key, w.get("detail", "")[:200]))

    level = cfg.get("level", "exploration")
    distinct = len(agg["hashes"])
    wall = time.time() - t0
    status = 0
    paths = []
    for name, body, files in violations:
        paths.append(save_replay(pid, 0, name, body, files))
        # a digest of the failure next to the VIOLATION line (the replay file holds all of it)
        for line in body[:6000].splitlines()[:60]:
            log("  | " + line[:400])
    evidence = {
        "property_id": pid,
        "tier": tier,
        "seed": int(env["VERIF_SEED"]),
        "level": level,
        "coverage": {
            "evaluations": agg["evaluations"] + fuzz_execs,
            "distinct_nontrivial": distinct,
            "nontrivial_total": agg["nontrivial"],
            "rule": cfg["rule"],
            "samples": agg["samples"] or ["(no non-trivial case was generated)"],
            "classes": dict(sorted(agg["classes"].items())),
            "excluded_as_known_finding": agg["excluded"],
            "tests": sorted(agg["tests"]),
            "shards": len(shards),
            "race_shards": len(race_shards),
            "native_fuzz_execs": fuzz_execs,
            "exhaustive": False,
            "notes": agg["notes"],
        },
        "assumptions": cfg.get("assumptions", []),
        "wall_s": round(wall, 2),
        "violations": len(violations),
    }
    if cfg.get("exhaustive_note"):
        evidence["coverage"]["exhaustive_subspaces"] = cfg["exhaustive_note"]
    # (development runs against another checkout - VERIF_REPO - must not pass
    # for evidence about /repo: theirs goes to a scratch directory)
    evdir = os.path.join(ROOT, "evidence")
    if os.environ.get("VERIF_REPO"):
        evdir = os.path.join("/var/tmp", "verif-alt-evidence")
    os.makedirs(evdir, exist_ok=True)
    with open(os.path.join(evdir, pid + ".json"), "w") as f:
        json.dump(evidence, f, indent=1, ensure_ascii=False)
        f.write("\n")

    log("property=%s tier=%s seed=%s evaluations=%d distinct_nontrivial=%d wall=%.1fs" % (
        pid, tier, env["VERIF_SEED"], evidence["coverage"]["evaluations"], distinct, wall))
    if violations:
        for p in paths:
            log("VIOLATION property=%s replay=%s" % (pid, p))
        return 1
    if inconclusive:
        for i in inconclusive:
            log("INCONCLUSIVE property=%s %s" % (pid, i))
        return 2
    if agg["evaluations"] == 0 or distinct < 2:
        log("INCONCLUSIVE property=%s: the run produced no non-trivial cases" % pid)
        return 2
    return status


def do_replay(pid, cfg, binary, env, work, path):
    """Re-run a saved failure: a rapid .fail file, a record (.txt) naming one, or a
    record carrying the seed/shard of the failing run."""
    path = os.path.abspath(path)
    test, failfile, seed_args = None, None, []
    if path.endswith(".fail"):
        failfile = path
        test = re.sub(r"-\d{14}-\d+\.fail$", "", os.path.basename(path))
    else:
        body = open(path, errors="replace").read()
        m = re.search(r"^test: (\S+)", body, re.M)
        if m:
            test = m.group(1).split("/")[0]
        m = re.search(r"^rapid fail file: (\S+)", body, re.M)
        if m:
            cand = os.path.join(os.path.dirname(path), m.group(1))
            if os.path.exists(cand):
                failfile = cand
        m = re.search(r"args=(.*)", body)
        if m:
            seed_args = [a for a in m.group(1).split() if a.startswith("-rapid.seed=")]
    args = ["-test.v", "-test.timeout=900s"]
    if test:
        args.append("-test.run=^%s$" % test)
    if failfile:
        args.append("-rapid.failfile=" + failfile)
    else:
        args += seed_args
    m = re.search(r"tier=(\w+)", open(path, errors="replace").read()) if not path.endswith(".fail") else None
    if m:
        env = dict(env)
        env["VERIF_TIER"] = m.group(1)
    s = Shard(0, work, binary, args, env, 1000).wait()
    sys.stdout.write(s.out[-20000:])
    if s.rc != 0:
        log("VIOLATION property=%s replay=%s" % (pid, path))
        return 1
    log("replay passed: property=%s %s" % (pid, path))
    return 0


def setup():
    ensure_gosum()
    work = tempfile.mkdtemp(prefix="verif-setup-", dir="/var/tmp")
    bad = 0
    try:
        for pid, cfg in sorted(PROPS.items()):
            rc, out = build(cfg["pkg"], os.path.join(work, "t.test"))
            if rc != 0:
                bad += 1
                log("setup: build of %s failed:\n%s" % (cfg["pkg"], out))
            if cfg.get("race_quick"):
                # warm the build cache for the race-detector binary the quick tier uses
                rc, out = build(cfg["pkg"], os.path.join(work, "r.test"), race=True)
                if rc != 0:
                    bad += 1
                    log("setup: -race build of %s failed:\n%s" % (cfg["pkg"], out))
    finally:
        shutil.rmtree(work, ignore_errors=True)
    return 1 if bad else 0


def main():
    ap = argparse.ArgumentParser()
    ap.add_argument("id", nargs="?")
    ap.add_argument("--tier", default=os.environ.get("VERIF_TIER", "quick"))
    ap.add_argument("--replay")
    ap.add_argument("--setup", action="store_true")
    a = ap.parse_args()
    if a.setup:
        sys.exit(setup())
    if a.id not in PROPS:
        log("unknown property", a.id)
        sys.exit(2)
    tier = a.tier if a.tier in ("quick", "thorough") else "quick"
    try:
        sys.exit(run_check(a.id, tier, a.replay))
    except Exception as e:  # harness error: never a violation
        import traceback
        traceback.print_exc()
        log("INCONCLUSIVE property=%s harness error: %s" % (a.id, e))
        sys.exit(2)


if __name__ == "__main__":
    main()
