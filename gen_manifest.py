#!/usr/bin/env python3
"""Regenerates MANIFEST.json from props.py (run after editing props.py)."""
import json, os, sys
ROOT = os.path.dirname(os.path.abspath(__file__))
sys.path.insert(0, ROOT)
from props import PROPS

ALL = ["C%02d" % i for i in range(1, 21)]
checks = []
for pid in ALL:
    if pid not in PROPS:
        continue
    c = PROPS[pid]
    checks.append({
        "property_id": pid,
        "quick_cmd": "python3 /verif/check.py %s --tier quick" % pid,
        "thorough_cmd": "python3 /verif/check.py %s --tier thorough" % pid,
        "evidence_file": "/verif/evidence/%s.json" % pid,
        "replay_cmd_template": "python3 /verif/check.py %s --replay {path}" % pid,
        "engine": "rapid-harness",
        "level_claimed": {
            "category": c.get("level", "exploration"),
            "text": c.get("level_text", "generated-input search against an explicit oracle; no exhaustiveness claimed beyond the sub-spaces named in the evidence"),
            "design_ref": "DESIGN.md §2 " + pid,
        },
        "level_note": c.get("level_note", "; ".join(c.get("assumptions", [])) or "oracle and generators of the harness are trusted"),
        "technique": c.get("technique", "property-based testing (pgregory.net/rapid) against a reference model"),
    })
na = [{"property_id": pid, "reason": "check not built yet (work in progress); will be decided by property-based testing as designed in DESIGN.md"}
      for pid in ALL if pid not in PROPS]
hooks_commits = []
hp = os.path.join(ROOT, "hooks_commits.txt")
if os.path.exists(hp):
    hooks_commits = [l.split()[0] for l in open(hp) if l.strip() and not l.startswith("#")]
m = {
    "version": 1,
    "setup_cmd": "python3 /verif/check.py --setup",
    "hooks": {
        "guard": "verif",
        "enable": "go test -tags verif (the driver always builds the harness and /repo with -tags verif)",
        "baseline_off_cmd": "cd /repo && GOFLAGS=-mod=mod GOPROXY=off GOSUMDB=off go test -json -vet=off -count=1 -timeout 25m ./...",
        "source_commits": hooks_commits,
        "add_only": True,
    },
    "engines": [{
        "name": "rapid-harness",
        "path": "/verif/harness",
        "serves_properties": [c["property_id"] for c in checks],
        "kind_free_text": "Go module mellium.im/xmpp/verifharness (replace mellium.im/xmpp => /repo): one test package per property, pgregory.net/rapid v1.3.0 generators and state machines, native go fuzzing in the thorough tier; driver /verif/check.py builds from /repo's working tree, shards by seed, merges counters into evidence",
    }],
    "checks": checks,
    "notes": "exit 0 held / exit 1 VIOLATION line / exit 2 inconclusive (build failure, timeout). Known findings: /verif/known_findings.txt.",
}
if na:
    m["not_applicable"] = na
json.dump(m, open(os.path.join(ROOT, "MANIFEST.json"), "w"), indent=1)
print("checks:", [c["property_id"] for c in checks])
