#!/bin/bash
# usage: reseed.sh <store-name> [property ...]   (development helper)
# Re-runs the quick check(s) against an already stored seeded change, in the
# scratch worktree /var/tmp/wt-me (never /repo). Default property: the one the
# store name starts with.
STORE=$1; shift
WT=${WT:-/var/tmp/wt-me}
export GOFLAGS=-mod=mod GOPROXY=off GOSUMDB=off GOTOOLCHAIN=local
props=${@:-${STORE%%-*}}
git -C $WT checkout -q -- . ; git -C $WT clean -fdq; git -C $WT checkout -q --detach "$(git -C /repo rev-parse HEAD)"
git -C $WT apply /verif/seeded/$STORE/patch.diff || { echo "PATCH DOES NOT APPLY"; exit 4; }
for p in $props; do
  out=$(VERIF_REPO=$WT timeout 1200 python3 /verif/check.py $p 2>&1 | grep -E "^VIOLATION|^INCONCLUSIVE|^property=")
  echo "$STORE vs $p: $(echo "$out" | grep '^property=' | cut -d' ' -f4-6) violations=$(echo "$out" | grep -c '^VIOLATION')"
  echo "$out" | grep '^VIOLATION' | head -3
done
git -C $WT checkout -q -- . ; git -C $WT clean -fdq
