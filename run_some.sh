#!/bin/bash
# usage: run_some.sh quick|thorough seed ID...   -- like run_all.sh for the named checks only
TIER=${1:-quick}; export VERIF_SEED=${2:-1}; shift 2
cd "$(dirname "$0")"
for p in "$@"; do
  s=$(date +%s)
  out=$(python3 check.py $p --tier $TIER 2>&1); rc=$?
  echo "$p rc=$rc $(( $(date +%s) - s ))s $(echo "$out" | grep -E '^property=' | cut -d' ' -f4-5) $(echo "$out" | grep -cE '^VIOLATION') violations $(echo "$out" | grep -E '^INCONCLUSIVE' | head -2 | tr '\n' ' ')"
  echo "$out" | grep -E '^VIOLATION' -A25 | head -60
done
